#!/bin/sh
# Rebuild /repo's in-place extension and run the pinned baseline suite (guard OFF). Prints the summary line.
cd /repo || exit 2
env -u REBOUND_VERIF /venv/bin/python setup.py build_ext --inplace -q >/tmp/repo_build.log 2>&1 || { tail -20 /tmp/repo_build.log; exit 2; }
env -u REBOUND_VERIF /venv/bin/python -m pytest -q -p no:cacheprovider --timeout=900 --continue-on-collection-errors 2>&1 | tail -8
git status --short | head
