#!/usr/bin/env python3
"""tools/seed_keep.py <srcdir> <id> "<what I ran to confirm>"  : copy patch.diff, demo.*, meta.json into seeded/<id>/ and add the confirmation record."""
import json, os, shutil, sys, glob
VERIF = os.path.dirname(os.path.dirname(os.path.abspath(__file__)))
src, sid, ran = sys.argv[1], sys.argv[2], sys.argv[3]
d = os.path.join(VERIF, 'seeded', sid)
os.makedirs(d, exist_ok=True)
shutil.copy(os.path.join(src, 'patch.diff'), d)
for f in glob.glob(os.path.join(src, 'demo.*')):
    if f.endswith(('.py', '.c', '.sh')):
        shutil.copy(f, d)
meta = json.load(open(os.path.join(src, 'meta.json')))
meta['breaks'] = meta.get('property')
meta['demo'] = "tools/seed_verify.sh seeded/%s   (runs demo on a pristine and on a patched scratch worktree)" % sid
meta['confirmed_by'] = ran
meta['origin'] = "independent sub-agent given only the property record and a scratch worktree"
json.dump(meta, open(os.path.join(d, 'meta.json'), 'w'), indent=1)
print("kept", d, os.listdir(d))
