#!/usr/bin/env python3
"""tools/seeded_eval.py [--tier quick|thorough] [--only ID...] [--props Cxx,Cyy]
Runs the check(s) of each kept seeded change (seeded/<id>/patch.diff, meta.json: property) against a scratch worktree of /repo
HEAD with the patch applied (tools/mut_eval.sh; /repo itself is never modified) and records the outcome in seeded/RESULTS.json
and seeded/README.md.  A change counts as caught when the check of its property exits 1 with a VIOLATION line."""
import json, os, subprocess, sys, re, time
VERIF = os.path.dirname(os.path.dirname(os.path.abspath(__file__)))
SD = os.path.join(VERIF, 'seeded')


def main():
    tier = 'quick'
    only = []
    a = sys.argv[1:]
    while a:
        x = a.pop(0)
        if x == '--tier':
            tier = a.pop(0)
        elif x == '--only':
            only = a
            break
    resf = os.path.join(SD, 'RESULTS.json')
    res = json.load(open(resf)) if os.path.exists(resf) else {}
    for sid in sorted(os.listdir(SD)):
        d = os.path.join(SD, sid)
        if not os.path.isfile(os.path.join(d, 'patch.diff')) or (only and sid not in only):
            continue
        meta = json.load(open(os.path.join(d, 'meta.json')))
        props = [meta['property']] + [p for p in meta.get('also_run', [])]
        t0 = time.time()
        p = subprocess.run([os.path.join(VERIF, 'tools', 'mut_eval.sh'), os.path.join(d, 'patch.diff'), tier] + props,
                           capture_output=True, text=True)
        out = p.stdout
        entry = res.setdefault(sid, {})
        for m in re.finditer(r'^== (C\d\d) rc=(\d+) ?(.*)$', out, re.M):
            mechs = re.findall(r'violation mechanism (\S+)', out)
            entry.setdefault(m.group(1), {})[tier] = dict(rc=int(m.group(2)), caught=(m.group(2) == '1' and 'VIOLATION' in m.group(3)),
                                                         mechanisms=sorted(set(mechs))[:6], secs=round(time.time() - t0))
        print(sid, tier, json.dumps(entry))
        json.dump(res, open(resf, 'w'), indent=1, sort_keys=True)
    write_readme(res)


def write_readme(res):
    L = ["# Seeded changes", "",
         "Each directory holds an independently written change to hannorein/rebound that breaks one property while compiling and passing the",
         "pinned test suite (patch.diff), a demonstration that fails with it and passes without (demo.*), and meta.json (what it needs to",
         "manifest, what was run to confirm it). None is ever committed to /repo. `tools/seeded_eval.py` applies each to a scratch worktree",
         "and runs the property's check; `caught` = exit 1 with a VIOLATION line.", "",
         "| id | property | change | needs | quick | thorough | mechanism(s) reported |", "|---|---|---|---|---|---|---|"]
    for sid in sorted(res):
        mp = os.path.join(SD, sid, 'meta.json')
        if not os.path.exists(mp):
            continue
        meta = json.load(open(mp))
        e = res[sid].get(meta['property'], {})

        def cell(t):
            if t not in e:
                return 'not run'
            return 'caught' if e[t]['caught'] else 'MISSED (rc=%d)' % e[t]['rc']
        mech = (e.get('quick', {}).get('mechanisms') or e.get('thorough', {}).get('mechanisms') or [])
        L.append("| %s | %s | %s | %s | %s | %s | %s |" % (sid, meta['property'], meta.get('summary', '').replace('|', '/')[:160],
                                                       meta.get('needs', '').replace('|', '/')[:200], cell('quick'), cell('thorough'), ', '.join(mech)[:200]))
    open(os.path.join(SD, 'README.md'), 'w').write('\n'.join(L) + '\n')


main()
