#!/usr/bin/env python3
"""tools/reach.py Cxx [tier] : reach evidence.  Re-runs a check's workload on the gcov build of the working tree and prints
line coverage of the source files the property is anchored in (plus every src file with >0 hits), naming functions that were
never executed.  Not part of any verdict.  Output: stdout and (with --write) reach/Cxx.txt"""
import json, os, re, subprocess, sys, glob, shutil, tempfile
VERIF = os.path.dirname(os.path.dirname(os.path.abspath(__file__)))
sys.path.insert(0, VERIF)


def main():
    pid = sys.argv[1]
    tier = sys.argv[2] if len(sys.argv) > 2 and not sys.argv[2].startswith('-') else 'quick'
    prop = [json.loads(l) for l in open(os.path.join(VERIF, 'properties.jsonl')) if json.loads(l)['id'] == pid][0]
    anchored = sorted({os.path.basename(f) for f in prop['anchors']['files'] if f.startswith('src/') and f.endswith('.c')})
    env = dict(os.environ, VERIF_VARIANT_MAP='rel=cov,asan=cov,avx512=cov512,dbg=cov', PYTHONDONTWRITEBYTECODE='1')
    ev = tempfile.mkdtemp(prefix='reach-ev-')
    env['VERIF_EVIDENCE_DIR'] = ev
    from vf import build as B
    os.environ['VERIF_VARIANT_MAP'] = ''
    dirs = []
    for v in ('cov', 'cov512'):
        d = B.build(v, prune=False)
        for g in glob.glob(os.path.join(d, '*.gcda')):
            os.unlink(g)
        dirs.append(d)
    p = subprocess.run([os.path.join(VERIF, 'check'), pid, '--tier', tier], env=env, capture_output=True, text=True)
    verdict = [l for l in p.stdout.splitlines() if re.match(r'^(HELD|VIOLATION|INCONCLUSIVE|HARNESS)', l)]
    shutil.rmtree(ev, ignore_errors=True)
    out = ["reach %s tier=%s  (check on the gcov build said: %s)" % (pid, tier, '; '.join(verdict)[:200])]
    tot = {}
    for d in dirs:
        gcdas = glob.glob(os.path.join(d, '*.gcda'))
        if not gcdas:
            continue
        r = subprocess.run(['gcov', '-f', '-o', d] + gcdas, cwd=d, capture_output=True, text=True).stdout
        cur = None
        for m in re.finditer(r"(Function|File) '([^']+)'\nLines executed:([\d.]+)% of (\d+)", r):
            kind, name, pct, n = m.group(1), m.group(2), float(m.group(3)), int(m.group(4))
            if kind == 'File':
                continue
        # per-file, per-function from the .gcov files (exact, mergeable across the two builds)
        for gc in glob.glob(os.path.join(d, '*.c.gcov')):
            base = os.path.basename(gc)[:-5]
            lines = tot.setdefault(base, {})
            fn = None
            for l in open(gc, errors='replace'):
                mm = re.match(r'\s*([\d#=\-\*]+)\*?:\s*(\d+):', l)
                if not mm:
                    continue
                cnt, ln = mm.group(1), int(mm.group(2))
                if cnt == '-':
                    continue
                hit = 0 if cnt.startswith('#') or cnt.startswith('=') else 1
                lines[ln] = max(lines.get(ln, 0), hit)
            os.unlink(gc)
        # function level
        for m in re.finditer(r"Function '([^']+)'\nLines executed:([\d.]+)% of (\d+)", r):
            tot.setdefault('__fn__', {}).setdefault(m.group(1), 0.0)
            tot['__fn__'][m.group(1)] = max(tot['__fn__'][m.group(1)], float(m.group(2)))
    fns = tot.pop('__fn__', {})
    for base in sorted(tot, key=lambda b: (b not in anchored, b)):
        L = tot[base]
        if not L:
            continue
        h = sum(L.values())
        if h == 0 and base not in anchored:
            continue
        out.append("  %s %-28s %5d / %5d lines  %5.1f%%" % ('*' if base in anchored else ' ', base, h, len(L), 100.0 * h / len(L)))
    out.append("  (* = file named in the property's anchors)")
    # never-executed functions of anchored files
    if anchored:
        src = {}
        for a in anchored:
            try:
                txt = open(os.path.join(B.REPO, 'src', a)).read()
            except OSError:
                continue
            for f in fns:
                if re.search(r'\b%s\s*\(' % re.escape(f), txt) and re.search(r'^[\w\s\*]+\b%s\s*\([^;]*\)\s*\{' % re.escape(f), txt, re.M):
                    src.setdefault(a, []).append(f)
        for a in sorted(src):
            never = sorted(f for f in src[a] if fns[f] == 0.0)
            out.append("  never executed in %s (%d of %d functions): %s" % (a, len(never), len(src[a]), ', '.join(never) or '-'))
    txt = '\n'.join(out)
    print(txt)
    if '--write' in sys.argv:
        os.makedirs(os.path.join(VERIF, 'reach'), exist_ok=True)
        open(os.path.join(VERIF, 'reach', pid + '.txt'), 'w').write(txt + '\n')


main()
