#!/bin/sh
# tools/seed_verify.sh <dir-with-patch.diff-demo-meta.json> [--tests "pytest args"|--full]
# Independent confirmation of a seeded change in a fresh scratch worktree of /repo HEAD (outside /repo and /verif):
#   pristine: build, demo must PASS (exit 0);  patched: build, demo must FAIL (exit !=0);  patched: selected/all pinned tests pass.
D="$(cd "$1" && pwd)"; shift
MODE="$1"; ARG="$2"
WT=$(mktemp -d /tmp/sv-XXXXXX)
git -C /repo worktree add --detach "$WT/wt" HEAD >/dev/null 2>&1 || { echo "worktree failed"; exit 2; }
cleanup() { git -C /repo worktree remove --force "$WT/wt" >/dev/null 2>&1; rm -rf "$WT"; }
cd "$WT/wt"
DEMO="$D/demo.py"; [ -f "$DEMO" ] || DEMO="$D/demo.c"
rundemo() {
  if [ "${DEMO##*.}" = "py" ]; then ( cd "$WT/wt" && PYTHONPATH="$WT/wt" timeout 900 /venv/bin/python "$DEMO" ) > "$WT/demo.$1.log" 2>&1; echo $?
  else
    BUILD=$(sed -n '1,12p' "$DEMO" | grep -E 'gcc|cc ' | head -1 | sed -e 's,^[ /\*]*,,' -e 's,\*/ *$,,')
    ( cd "$WT/wt" && cp "$DEMO" "$WT/demo.c" && eval "$(echo "$BUILD" | sed -e "s,[^ ]*demo\.c,$WT/demo.c,g" -e "s,-o [^ ]*,-o $WT/demo.bin,")" && timeout 900 "$WT/demo.bin" ) > "$WT/demo.$1.log" 2>&1; echo $?
  fi
}
/venv/bin/python setup.py build_ext --inplace -q > "$WT/b0.log" 2>&1 || { echo "PRISTINE BUILD FAILED"; tail "$WT/b0.log"; cleanup; exit 2; }
RC0=$(rundemo pristine)
git apply "$D/patch.diff" 2>"$WT/apply.err" || patch -p1 --no-backup-if-mismatch < "$D/patch.diff" > "$WT/apply.err" 2>&1 || { echo "PATCH DOES NOT APPLY"; cat "$WT/apply.err"; cleanup; exit 2; }
/venv/bin/python setup.py build_ext --inplace -q > "$WT/b1.log" 2>&1 || { echo "PATCHED BUILD FAILED"; tail "$WT/b1.log"; cleanup; exit 2; }
RC1=$(rundemo patched)
echo "demo pristine rc=$RC0: $(tail -1 "$WT/demo.pristine.log")"
echo "demo patched  rc=$RC1: $(tail -1 "$WT/demo.patched.log")"
TESTS=skipped
if [ "$MODE" = "--full" ]; then
  /venv/bin/python -m pytest -q -rf -p no:cacheprovider --timeout=900 --continue-on-collection-errors > "$WT/suite.log" 2>&1
  # the pinned baseline counts 873 stable passes; without network one test outside that set fails on the pristine tree too
  NEWFAIL=$(grep '^FAILED' "$WT/suite.log" | grep -v -i -E 'horizons|network|urlopen|test_add_by_name' | tr "\n" " ")
  PASSED=$(tail -1 "$WT/suite.log" | grep -o '[0-9]* passed')
  TESTS="$PASSED; failures beyond the offline baseline: ${NEWFAIL:-none}"
  [ -n "$NEWFAIL" ] && TESTS="$TESTS (new test failed)"
  [ "$PASSED" = "873 passed" ] || TESTS="$TESTS (pass count differs: failed)"
elif [ "$MODE" = "--tests" ]; then
  TESTS=$( /venv/bin/python -m pytest -q -p no:cacheprovider --timeout=900 $ARG 2>&1 | tail -3 | tr "\n" " " )
fi
echo "tests (patched): $TESTS"
OK=1; [ "$RC0" = "0" ] || OK=0; [ "$RC1" != "0" ] || OK=0
case "$TESTS" in *failed*) OK=0;; esac   # (the suite has four module-level test_method collection errors on the pristine tree too)
cleanup
[ $OK = 1 ] && { echo "SEED-VERIFIED"; exit 0; } || { echo "SEED-REJECTED"; exit 1; }
