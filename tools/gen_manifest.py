#!/usr/bin/env python3
"""Regenerates MANIFEST.json from the table below (kept here so the file is always schema-valid)."""
import json, os, subprocess, sys
VERIF = os.path.dirname(os.path.dirname(os.path.abspath(__file__)))
sys.path.insert(0, VERIF)
from tools.manifest_table import CHECKS, NOT_APPLICABLE

def main():
    fixes = subprocess.run(['git', '-C', '/repo', 'log', '--format=%h %s'], capture_output=True, text=True).stdout.splitlines()
    hook_commits = [l.split()[0] for l in fixes if l.split(' ', 1)[1].startswith('hook:')]
    m = dict(
        version=1,
        setup_cmd="/venv/bin/python vf/build.py rel asan",
        hooks=dict(guard="REBOUND_VERIF", enable="checks compile /repo/src with -DREBOUND_VERIF=1 and run workers with REBOUND_VERIF=1 (vf/build.py); no source hooks exist - every observation point used is already public API (heartbeat, collision_resolve, exported reb_* functions, ctypes mirrors)",
                   baseline_off_cmd="cd /repo && env -u REBOUND_VERIF /venv/bin/python setup.py build_ext --inplace -q && env -u REBOUND_VERIF /venv/bin/python -m pytest -ra -q -p no:cacheprovider --timeout=900 --continue-on-collection-errors",
                   source_commits=hook_commits, add_only=True),
        engines=[dict(name="vf", path="vf/", serves_properties=[c['property_id'] for c in CHECKS],
                      kind_free_text="runtime monitoring harness: builds rel/asan/tsan/avx512 variants from /repo's working tree, runs generated workloads in sharded worker subprocesses, oracles = independent reference models + sanitizers")],
        checks=[], notes="See DESIGN.md. exit 0 held / 1 VIOLATION / 2 INCONCLUSIVE (deciding monitor not reached) / 3 harness error.",
        not_applicable=NOT_APPLICABLE)
    for c in CHECKS:
        pid = c['property_id']
        m['checks'].append(dict(
            property_id=pid, quick_cmd="./check %s --tier quick" % pid, thorough_cmd="./check %s --tier thorough" % pid,
            evidence_file="evidence/%s.json" % pid, replay_cmd_template="./check %s --replay {path}" % pid, engine="vf",
            level_claimed=dict(category=c.get('category', 'exploration'), text=c['text'], design_ref=c['design_ref']),
            level_note=c['note'], technique=c['technique']))
    with open(os.path.join(VERIF, 'MANIFEST.json'), 'w') as f:
        json.dump(m, f, indent=1)
    try:
        sys.path.insert(0, os.path.join(VERIF, '.deps'))
        import jsonschema
        jsonschema.validate(m, json.load(open('/root/.vp/MANIFEST.schema.json')))
        print("MANIFEST.json valid:", len(m['checks']), "checks,", len(NOT_APPLICABLE), "not_applicable")
    except ImportError:
        print("jsonschema not available; not validated")

main()
