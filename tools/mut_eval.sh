#!/bin/sh
# tools/mut_eval.sh <patch.diff> <tier> <prop> [prop...]  : run checks against a scratch worktree of /repo HEAD with the patch applied.
# Never touches /repo's working tree; evidence goes to a scratch dir. Prints one verdict line per property.
PATCH="$1"; TIER="$2"; shift 2
WT=$(mktemp -d /tmp/mv-XXXXXX)
git -C /repo worktree add --detach "$WT/wt" HEAD >/dev/null 2>&1 || exit 2
if ! git -C "$WT/wt" apply "$PATCH" 2>"$WT/apply.err"; then
  if ! (cd "$WT/wt" && patch -p1 --no-backup-if-mismatch < "$PATCH" >"$WT/apply.err" 2>&1); then echo "PATCH-DOES-NOT-APPLY $PATCH"; cat "$WT/apply.err"; git -C /repo worktree remove --force "$WT/wt"; rm -rf "$WT"; exit 2; fi
fi
for P in "$@"; do
  VERIF_REPO="$WT/wt" VERIF_EVIDENCE_DIR="$WT/ev" VERIF_REPLAY_DIR="$WT/ev" /verif/check "$P" --tier "$TIER" > "$WT/$P.log" 2>&1
  RC=$?
  echo "== $P rc=$RC $(grep -E '^(VIOLATION|INCONCLUSIVE|HARNESS-ERROR|HELD)' "$WT/$P.log" | head -2 | tr '\n' ' ')"
  grep -E "^  violation mechanism" "$WT/$P.log" | head -5
  [ -n "$MUT_KEEP_LOG" ] && cp "$WT/$P.log" "$MUT_KEEP_LOG"
done
git -C /repo worktree remove --force "$WT/wt"; rm -rf "$WT"
# remove the scratch build dirs keyed to this worktree
find /verif/.build -maxdepth 1 -type d -mmin +0 -name '*-*' 2>/dev/null | while read d; do [ -L "$d/rebound" ] && [ ! -e "$d/rebound" ] && rm -rf "$d"; done
exit 0
