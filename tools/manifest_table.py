TB = "gcc 12 / clang 14 and their sanitizer runtimes; CPython ctypes; the harness's own reference models (small, independent of REBOUND's sources)"
CHECKS = [
 dict(property_id="C18", design_ref="DESIGN.md §3 C18", technique="exhaustive DWARF-vs-ctypes layout comparison + set-by-name / read-at-C-offset option monitor",
      text="Finite space enumerated completely: every member of every mirrored structure (26 structures, ~350 members) is compared between DWARF (gdb on a -g build of the working tree) and ctypes (offset, size, kind, signedness, normalised name incl. crossed names and field/property shadowing), and every named option value is set by name in Python, read back at the C offset against the C enumerator or C symbol address, and read back by name. Thorough repeats on the AVX512 build.",
      note="Trusted: gdb's DWARF reader; -O0 -g and -O3 builds share struct layout; " + TB),
 dict(property_id="C14", design_ref="DESIGN.md §3 C14", technique="history + executable list model, compared after every operation; ASan+UBSan build",
      text="Random add/remove/hash/lookup histories (valid and invalid requests, duplicate and zero hashes, storage growth, MERCURIUS/TRACE/tree modes, C API and Python container) are replayed against the real code and a list model; N, order, contents, N_active and lookups are compared after every operation, invalid requests must leave the persisted state unchanged, and the same histories run under ASan+UBSan. Held on the histories explored, not a proof.",
      note="Trusted: " + TB + "; particle identity is carried in the mass field; N_active compared only where an adjustment is documented by the code's own contract."),
]
ALL = ["C%02d" % i for i in range(1, 21)]
NOT_APPLICABLE = [dict(property_id=p, reason="check under construction in this build round (runtime monitor designed in DESIGN.md, not yet registered)") for p in ALL if p not in [c['property_id'] for c in CHECKS]]
