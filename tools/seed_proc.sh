#!/bin/sh
# proc.sh <id> : verify a candidate and run its property's quick check against it
i=$1; P=${i%%-*}
timeout 2400 /verif/tools/seed_verify.sh /tmp/seed/$i --full > /tmp/q2/sv/$i.log 2>&1
echo "### $i verify: $(tail -n 1 /tmp/q2/sv/$i.log) | $(grep '^tests' /tmp/q2/sv/$i.log | cut -c1-80)"
VERIF_JOBS=8 timeout 1500 /verif/tools/mut_eval.sh /tmp/seed/$i/patch.diff quick $P 2>&1 | cut -c1-260
