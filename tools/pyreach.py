#!/usr/bin/env python3
"""tools/pyreach.py [Cxx ...] [--write] : reach evidence for the PYTHON layer.  Runs the quick tier of the named checks (default: all)
with VERIF_PYREACH set, so that every worker records which functions of the working tree's rebound/*.py it entered (sys.monitoring),
and lists per module the functions / methods / properties that no worker of any of those checks ever entered.  Not part of any verdict;
it tells us where the generators never go.  Output: stdout and (with --write) reach/python.txt"""
import ast, glob, json, os, shutil, subprocess, sys, tempfile
VERIF = os.path.dirname(os.path.dirname(os.path.abspath(__file__)))
REPO = os.environ.get('VERIF_REPO', '/repo')


def defs(path):
    out = []
    tree = ast.parse(open(path).read())

    def walk(node, prefix):
        for ch in ast.iter_child_nodes(node):
            if isinstance(ch, (ast.FunctionDef, ast.AsyncFunctionDef)):
                first = min([ch.lineno] + [d.lineno for d in ch.decorator_list])
                out.append((prefix + ch.name, first, ch.lineno))
                walk(ch, prefix + ch.name + '.<locals>.')
            elif isinstance(ch, ast.ClassDef):
                walk(ch, prefix + ch.name + '.')
    walk(tree, '')
    return out


def main():
    args = [a for a in sys.argv[1:] if not a.startswith('-')]
    props = args or ['C%02d' % i for i in range(1, 21)]
    td = tempfile.mkdtemp(prefix='pyreach-')
    env = dict(os.environ, VERIF_PYREACH=os.path.join(td, 'hits'), VERIF_EVIDENCE_DIR=os.path.join(td, 'ev'), VERIF_REPLAY_DIR=os.path.join(td, 'ev'))
    verdicts = []
    for p in props:
        r = subprocess.run([os.path.join(VERIF, 'check'), p, '--tier', 'quick'], env=env, capture_output=True, text=True)
        verdicts.append('%s:%s' % (p, (r.stdout.split('property=')[0].split('\n')[-1] or '?').strip()))
    seen = {}
    for f in glob.glob(os.path.join(td, 'hits', '*.json')):
        for mod, qual, line in json.load(open(f)):
            seen.setdefault(mod, set()).add((qual, line))
    shutil.rmtree(td, ignore_errors=True)
    L = ['python reach over the quick tier of %s' % ' '.join(props), '  verdicts: ' + ' '.join(verdicts), '']
    tot_all = tot_hit = 0
    for path in sorted(glob.glob(os.path.join(REPO, 'rebound', '*.py')) + glob.glob(os.path.join(REPO, 'rebound', 'integrators', '*.py'))):
        mod = os.path.basename(os.path.dirname(path)) + '/' + os.path.basename(path)
        if os.path.basename(path) in ('__init__.py',) or 'tests' in path:
            continue
        d = defs(path)
        hitlines = set(l for (_q, l) in seen.get(mod, ()))
        never = [q for (q, first, ln) in d if first not in hitlines and ln not in hitlines]
        tot_all += len(d)
        tot_hit += len(d) - len(never)
        L.append('%-34s %3d of %3d functions entered; never: %s' % (mod, len(d) - len(never), len(d), ', '.join(never) or '-'))
    L.append('')
    L.append('total: %d of %d functions entered' % (tot_hit, tot_all))
    txt = '\n'.join(L)
    print(txt)
    if '--write' in sys.argv:
        os.makedirs(os.path.join(VERIF, 'reach'), exist_ok=True)
        open(os.path.join(VERIF, 'reach', 'python.txt'), 'w').write(txt + '\n')


main()
