"""C04 - isolated systems conserve momentum, angular momentum and (as advertised) energy.

 conserve    random bound planetary systems, every particle active, boosted to a random non-zero centre-of-mass velocity and
             offset, are driven by every integrator/option tuple in chunks separated by synchronize() (safe and unsafe modes).
             At every checkpoint exactly-rounded (fsum) direct sums over the particle array give P, X_com - V_com t, L and E:
               momentum and uniform COM motion: rounding envelope for every integrator;
               angular momentum: rounding envelope for the fixed-step symplectic schemes, accuracy class for adaptive/hybrid;
               energy: accuracy class (IAS15 ~1e-13, BS ~ its tolerance), symplectic: bounded (class bound) and non-drifting
               (max over the whole run <= 4 x max over the first third + floor).
 encounter   the same with tightly packed systems for MERCURIUS / TRACE (switching, rejected steps): momentum and COM motion only.
 merge       systems with physical radii in which mergers happen during the run: total mass and momentum (and COM motion)
             across every merge, all integrators that support collisions.
 diagnostics reb_simulation_energy / angular_momentum / com against the same exactly-rounded sums, incl. test particles of both types.
"""
import json, math, random
from vf import core, gen
from vf.num import gt, nmax as max, nmin as min

PROPERTY = "C04"
EPS = 2.0 ** -52
SYMPLECTIC = ('whfast', 'saba', 'eos', 'leapfrog', 'janus', 'whfast512')


def run_case(case):
    import ctypes, warnings
    warnings.simplefilter('ignore')
    import rebound
    from math import fsum, sqrt
    r = random.Random(case['seed'])
    viol = []
    counters = dict(runs=0, checkpoints=0, steps=0, syncs_in_unsafe_mode=0, merges=0, merge_runs=0, diagnostics=0, encounter_runs=0, runs_with_com_velocity=0)
    cells = set()
    worst = {}

    def add(mech, msg):
        if len(viol) < 40:
            viol.append(dict(mech=mech, msg=msg))

    def sums(sim, G, n_real=None, lo=0, hi=None):
        hi = hi if hi is not None else (n_real if n_real is not None else sim.N)
        ps = [(p.m, p.x, p.y, p.z, p.vx, p.vy, p.vz) for p in sim.particles[lo:hi]]
        M = fsum(p[0] for p in ps)
        P = [fsum(p[0] * p[4 + k] for p in ps) for k in range(3)]
        X = [fsum(p[0] * p[1 + k] for p in ps) for k in range(3)]
        L = [fsum(p[0] * (p[1 + (k + 1) % 3] * p[4 + (k + 2) % 3] - p[1 + (k + 2) % 3] * p[4 + (k + 1) % 3]) for p in ps) for k in range(3)]
        K = fsum(0.5 * p[0] * (p[4] ** 2 + p[5] ** 2 + p[6] ** 2) for p in ps)
        U = fsum(-G * ps[i][0] * ps[j][0] / sqrt((ps[i][1] - ps[j][1]) ** 2 + (ps[i][2] - ps[j][2]) ** 2 + (ps[i][3] - ps[j][3]) ** 2) for i in range(len(ps)) for j in range(i + 1, len(ps)))
        Sp = fsum(p[0] * sqrt(p[4] ** 2 + p[5] ** 2 + p[6] ** 2) for p in ps)
        Sx = fsum(p[0] * sqrt(p[1] ** 2 + p[2] ** 2 + p[3] ** 2) for p in ps)
        SL = fsum(p[0] * sqrt(p[1] ** 2 + p[2] ** 2 + p[3] ** 2) * sqrt(p[4] ** 2 + p[5] ** 2 + p[6] ** 2) for p in ps)
        return dict(M=M, P=P, X=X, L=L, E=K + U, K=K, U=U, Sp=Sp, Sx=Sx, SL=SL)

    def boost(sim, r_):
        # in units of the system's own orbital speed and size (a boost of 1e5 orbital speeds makes |x| so large that
        # the relative coordinates lose all their digits: not a bound few-body system in any useful sense)
        ps_ = sim.particles
        vs = max(math.sqrt((p.vx - ps_[0].vx) ** 2 + (p.vy - ps_[0].vy) ** 2 + (p.vz - ps_[0].vz) ** 2) for p in ps_)
        xs = max(math.sqrt((p.x - ps_[0].x) ** 2 + (p.y - ps_[0].y) ** 2 + (p.z - ps_[0].z) ** 2) for p in ps_)
        V = [r_.uniform(-1, 1) * r_.choice([0.0, 0.1, 3.0]) * vs for _ in range(3)]
        X0 = [r_.uniform(-1, 1) * r_.choice([0.0, 1.0, 50.0]) * xs for _ in range(3)]
        for p in sim.particles:
            p.x += X0[0]; p.y += X0[1]; p.z += X0[2]
            p.vx += V[0]; p.vy += V[1]; p.vz += V[2]
        return any(V)

    for _ in range(case['n']):
        kind = r.choice(case['kinds'])
        if kind in ('conserve', 'encounter'):
            avx = case.get('avx512', False)
            if kind == 'encounter':
                integ = r.choice(['mercurius', 'trace', 'trace'])
            else:
                integ = 'whfast512' if avx else r.choice(['ias15', 'whfast', 'whfast', 'saba', 'eos', 'leapfrog', 'mercurius', 'trace', 'bs', 'janus'])
            rr = random.Random(r.getrandbits(40))
            spec = gen.random_spec(rr, integ=integ, allow_var=False, nmax=4, avx512=avx)
            spec.pop('N_active', None)
            spec.pop('testparticle_type', None)
            spec['system'].pop('testparticles', None)
            if kind == 'conserve' and integ != 'whfast512' and r.random() < 0.4:
                # heavier, mutually inclined planets: pair terms (jerk, indirect terms) are far above rounding
                spec['system'] = gen.planetary_system(rr, rr.randint(2, 4), mass_lo=1e-5, mass_hi=1e-3, incmax=0.4)
                spec['dt'] = gen.inner_period(spec['system']) / rr.choice([17.3, 25.1, 40.7, 61.0]) * spec.get('tscale', 1.0)
                if integ == 'eos' and r.random() < 0.6:
                    spec['opts']['ri_eos.phi0'] = rr.choice(['pmlf4', 'pmlf6'])      # the only splittings that use the jerk
            if kind == 'encounter':
                spec['system'] = gen.planetary_system(rr, rr.randint(2, 4), mass_lo=1e-5, mass_hi=1e-3, hill_sep=rr.choice([1.5, 2.5, 3.5]), emax=0.05)
                spec['dt'] = gen.inner_period(spec['system']) / rr.choice([17.3, 25.1, 40.7]) * spec.get('tscale', 1.0)
                counters['encounter_runs'] += 1
            if integ == 'ias15' and spec['opts'].get('ri_ias15.adaptive_mode') == 0:
                spec['opts']['ri_ias15.adaptive_mode'] = 2     # mode 0 is documented to fail (step collapses) whenever an acceleration component passes through zero
            if integ == 'janus':
                spec['opts']['ri_janus.scale_pos'] = 1e-16
                spec['opts']['ri_janus.scale_vel'] = 1e-16
            nsys = 1
            if kind == 'conserve' and r.random() < 0.5:
                # stellar mass other than 1 (every test in the suite uses 1)
                ms = rr.choice([0.3, 2.5])
                npl = len(spec['system']['planets'])
                if integ == 'whfast512' and r.random() < 0.6:
                    nsys = rr.choice([2, 4])
                    npl = min(npl, 8 // nsys - (1 if nsys == 2 else 0), 3 if nsys == 2 else 2)
                    npl = max(npl, 1)
                spec['system'] = gen.planetary_system(rr, npl, mstar=ms)
                spec['dt'] = gen.inner_period(spec['system']) / rr.choice([17.3, 25.1, 40.7, 61.0]) * spec.get('tscale', 1.0)
                counters['runs_with_star_mass_not_1'] = counters.get('runs_with_star_mass_not_1', 0) + 1
            if nsys > 1:
                # several independent systems side by side (WHFast512 N_systems), each with its own star mass
                counters['whfast512_multi_system_runs'] = counters.get('whfast512_multi_system_runs', 0) + 1
                sim = rebound.Simulation()
                sim.integrator = 'whfast512'
                sim.ri_whfast512.N_systems = nsys
                sim.exact_finish_time = 0
                for k_, v_ in spec['opts'].items():
                    gen.set_path(sim, k_, v_)
                npl = len(spec['system']['planets'])
                pmin = 1e300
                init_systems = []
                for s_ in range(nsys):
                    sysd_ = gen.planetary_system(rr, npl, mstar=rr.choice([1.0, 0.3, 2.5]))
                    pmin = min(pmin, gen.inner_period(sysd_))
                    sub = rebound.Simulation()
                    gen.add_system(sub, sysd_)
                    for p_ in sub.particles:
                        sim.add(p_.copy())
                    init_systems.append([p_.copy() for p_ in sub.particles])
                spec['dt'] = pmin / rr.choice([25.1, 40.7, 61.0])       # WHFast512's fixed-iteration solver needs a step well below every period
                sim.dt = spec['dt']
            else:
                sim = gen.build_sim(spec)
            G = sim.G
            if integ not in ('whfast512', 'janus') and r.random() < 0.75:
                if boost(sim, r):
                    counters['runs_with_com_velocity'] += 1
            nper = sim.N // nsys
            if integ == 'janus':
                sim.steps(1)                      # put the state on the integer grid first: the grid, not the input doubles, is what is conserved
                sim.ri_janus.recalculate_integer_coordinates_this_timestep = 0
            t0 = sim.t
            s0s = [sums(sim, G, lo=q * nper, hi=(q + 1) * nper) for q in range(nsys)]
            nsteps = r.choice(case['nsteps'])
            chunks = sorted(set([nsteps] + [r.randint(1, nsteps) for _k in range(r.randint(4, 12))]))
            unsafe = any(k.endswith('safe_mode') and v == 0 for k, v in spec['opts'].items()) or integ == 'whfast512'
            desc = '%s opts %r N=%d%s mstar=%r dt=%.4g nsteps=%d' % (integ, spec['opts'], sim.N, (' in %d systems' % nsys) if nsys > 1 else '', spec['system'].get('mstar'), sim.dt, nsteps)
            counters['runs'] += 1
            done = 0
            hist = []
            bad = False
            for cpt in chunks:
                import threading, signal, os
                # watchdog in logical terms is impossible for a stalled adaptive step (dt -> 1e-16): REBOUND's own SIGINT handler ends the call
                tm = threading.Timer(20.0, lambda: os.kill(os.getpid(), signal.SIGINT))
                tm.start()
                try:
                    if integ in ('ias15', 'bs', 'trace', 'mercurius') and r.random() < 0.5:
                        sim.integrate(sim.t + (cpt - done) * spec['dt'], exact_finish_time=r.choice([0, 1]))
                    else:
                        sim.steps(cpt - done)
                except (Exception, KeyboardInterrupt) as e:
                    counters['run_errors_or_stalls'] = counters.get('run_errors_or_stalls', 0) + 1
                    bad = True
                    break
                finally:
                    tm.cancel()
                done = cpt
                sim.synchronize()
                if unsafe:
                    counters['syncs_in_unsafe_mode'] += 1
                counters['checkpoints'] += 1
                T = sim.t - t0
                n = max(done, sim.steps_done, 1)
                per = []
                for q in range(nsys):
                    s0 = s0s[q]
                    s = sums(sim, G, lo=q * nper, hi=(q + 1) * nper)
                    # momentum
                    dP = max(abs(s['P'][k] - s0['P'][k]) for k in range(3))
                    envP = EPS * s0['Sp'] * math.sqrt(n)
                    # uniform COM motion
                    dX = max(abs(s['X'][k] - s0['X'][k] - s0['P'][k] * T) for k in range(3))
                    envX = EPS * (s0['Sx'] + s0['Sp'] * abs(T)) * math.sqrt(n)
                    dL = max(abs(s['L'][k] - s0['L'][k]) for k in range(3))
                    envL = EPS * max(s0['SL'], s['SL']) * math.sqrt(n)          # a boosted system moves away from the origin: the terms grow with t
                    if integ == 'janus':
                        # JANUS conserves on its integer grid: every kick/drift truncates each coordinate to a grid unit independently
                        st = {2: 1, 4: 5, 6: 9, 8: 15, 10: 33}[spec['opts']['ri_janus.order']]
                        sv, sp = spec['opts']['ri_janus.scale_vel'], spec['opts']['ri_janus.scale_pos']
                        Mt = s0['M']
                        vmax = max(math.sqrt(p.vx ** 2 + p.vy ** 2 + p.vz ** 2) for p in sim.particles)
                        xmax = max(math.sqrt(p.x ** 2 + p.y ** 2 + p.z ** 2) for p in sim.particles)
                        envP = max(envP, Mt * sv * math.sqrt(n * st))
                        envX = max(envX, Mt * (sp + sv * abs(T)) * math.sqrt(n * st))
                        envL = max(envL, Mt * (xmax * sv + vmax * sp + sv * abs(T) * vmax) * math.sqrt(n * st))
                    dE = abs(s['E'] - s0['E']) / abs(s0['E'])
                    per.append((dP / envP, dX / envX, dL / envL, dE))
                hist.append((done, max(q_[0] for q_ in per), max(q_[1] for q_ in per), max(q_[2] for q_ in per), max(q_[3] for q_ in per)))
            if bad or not hist:
                continue
            counters['steps'] += done
            if nsys > 1:
                # systems integrated side by side do not interact: each must follow the trajectory it has when integrated alone
                for q in range(nsys):
                    alone = rebound.Simulation()
                    alone.integrator = 'whfast512'
                    alone.exact_finish_time = 0
                    for k_, v_ in spec['opts'].items():
                        gen.set_path(alone, k_, v_)
                    for p_ in init_systems[q]:
                        alone.add(p_.copy())
                    alone.dt = spec['dt']
                    alone.steps(done)
                    alone.synchronize()
                    counters['multi_system_vs_alone'] = counters.get('multi_system_vs_alone', 0) + 1
                    sc_ = max(abs(getattr(p_, k_)) for p_ in alone.particles for k_ in ('x', 'y', 'z'))
                    dd = max(abs(getattr(a_, k_) - getattr(b_, k_)) for a_, b_ in zip(alone.particles, sim.particles[q * nper:(q + 1) * nper]) for k_ in ('x', 'y', 'z'))
                    if gt(dd, 1e-9 * sc_ * max(1.0, done / 100.0)):
                        add('multi-system:differs-from-standalone:whfast512', '%s: system %d of %d (star mass %r): max position difference %.3e after %d steps' % (desc, q, nsys, init_systems[q][0].m, dd, done))
            mP = max(h[1] for h in hist); mX = max(h[2] for h in hist); mL = max(h[3] for h in hist); mE = max(h[4] for h in hist)
            for nm, v in (('P', mP), ('X', mX), ('L', mL)):
                key = 'worst_%s_x10:%s' % (nm, integ if kind == 'conserve' else integ + ':encounter')
                worst[key] = max(worst.get(key, 0), int(v * 10))
            worst['worst_E_x1e16:%s' % (integ if kind == 'conserve' else integ + ':encounter')] = max(worst.get('worst_E_x1e16:%s' % (integ if kind == 'conserve' else integ + ':encounter'), 0), int(mE * 1e16))
            KP = case['KP']
            if gt(mP, KP):
                add('conserve:linear-momentum:%s%s' % (integ, ':encounter' if kind == 'encounter' else ''), '%s: max |dP| = %.1f x eps S_p sqrt(n)' % (desc, mP))
            if gt(mX, KP):
                add('conserve:centre-of-mass-not-uniform:%s%s' % (integ, ':encounter' if kind == 'encounter' else ''), '%s: max |X_com - X0 - V t| = %.1f x eps (S_x + S_p t) sqrt(n)' % (desc, mX))
            if kind == 'conserve':
                if integ in SYMPLECTIC:
                    bary = spec['opts'].get('ri_whfast.coordinates') == 'barycentric'
                    if gt(mL, case['KL']):
                        add('conserve:angular-momentum:%s%s' % (integ, ':barycentric-coordinates' if bary else ''), '%s: max |dL| = %.1f x eps S_L sqrt(n)' % (desc, mL))
                    if bary:
                        # the star is not integrated in this splitting but derived from the constraint: its angular momentum picks up
                        # cross terms of order (planet mass / star mass)^2 (recorded known finding); anything larger is something else
                        mu = sum(p_['m'] for p_ in spec['system']['planets']) / spec['system']['mstar']
                        relL = mL * EPS * math.sqrt(done)
                        # known finding (barycentric splitting): measured 1.0 mu^2 at mu = 1.3e-3 but 7e-4 mu at mu = 1.4e-7, i.e. the
                        # relative error scales like mu (dt/P)^2 for tiny planets; class bound = the larger of the two scalings
                        cls_b = max(200 * mu * mu, 0.02 * mu)
                        if gt(relL, cls_b + 1e-13):
                            add('conserve:angular-momentum-class:whfast:barycentric', '%s: max |dL|/S_L = %.3e > class %.3e (mu = %.3e)' % (desc, relL, cls_b, mu))
                            if os.environ.get('VERIF_C04_DUMP'):
                                with open(os.environ['VERIF_C04_DUMP'], 'a') as df:
                                    df.write(json.dumps(dict(desc=desc, spec=spec, hist=[(h[0], h[3]) for h in hist])) + '\n')
                else:
                    relL = max(h[3] for h in hist) * EPS * math.sqrt(done)        # ~ relative to S_L
                    cls = {'ias15': 1e-12, 'bs': 1e4 * max(spec['opts'].get('ri_bs.eps_rel', 1e-8), spec['opts'].get('ri_bs.eps_abs', 1e-8)), 'mercurius': 1e-7, 'trace': 1e-7}[integ]
                    if gt(relL, cls):
                        add('conserve:angular-momentum-class:%s' % integ, '%s: max |dL|/S_L = %.3e > class %.1e' % (desc, relL, cls))
                # energy
                if integ == 'ias15':
                    eps_ = spec['opts'].get('ri_ias15.epsilon', 1e-9)
                    # machine-precision class for the default tolerance; ten times the tolerance costs about a decade (measured 7.7e-12 over 1e4 steps at 1e-8)
                    # (rounding grows like sqrt(steps): 1.24e-12 was measured after 10000 steps on the unchanged tree, thorough seed 10)
                    lim = (1e-12 * max(1.0, math.sqrt(nsteps / 2500.0)) if eps_ <= 1e-9 else 1e-10 if eps_ <= 1e-8 else 1e-6) if 'ri_ias15.min_dt' not in spec['opts'] else 1e-6
                    if gt(mE, lim):
                        add('conserve:energy-class:ias15', '%s: max |dE/E| = %.3e' % (desc, mE))
                elif integ == 'bs':
                    lim = 1e5 * max(spec['opts'].get('ri_bs.eps_rel', 1e-8), spec['opts'].get('ri_bs.eps_abs', 1e-8))
                    if gt(mE, lim):
                        add('conserve:energy-class:bs', '%s: max |dE/E| = %.3e > %.1e' % (desc, mE, lim))
                else:
                    third = [h[4] for h in hist if h[0] <= done / 3.0]
                    mu_sys = sum(p_['m'] for p_ in spec['system']['planets']) / spec['system']['mstar'] if nsys == 1 else 1e-2
                    if gt(mE, ({'leapfrog': 0.3, 'janus': 0.3, 'eos': 5e-2}.get(integ, 1e-3)) + 5 * mu_sys):
                        add('conserve:energy-bound:%s' % integ, '%s: max |dE/E| = %.3e' % (desc, mE))
                    elif nsys == 1 and integ not in ('mercurius', 'trace', 'whfast512') and not unsafe and done >= 300:
                        # drift: the checkpoints above are too sparse to separate a secular drift from the orbital oscillation of the energy error
                        # (a run sampled at two quiet phases in its first third looked like a 600-fold growth).  Dense monitor: the same
                        # configuration again, energy after EVERY step; the mean error of the last third must not have moved away from the mean
                        # of the first third by more than the oscillation amplitude seen in the first third.
                        ds = gen.build_sim(spec)
                        e0 = ds.energy()
                        nd = 900
                        es = []
                        try:
                            for _k in range(nd):
                                ds.steps(1)
                                es.append((ds.energy() - e0) / abs(e0))
                        except Exception:
                            es = []
                        if len(es) == nd:
                            counters['dense_energy_runs'] = counters.get('dense_energy_runs', 0) + 1
                            a_, c_ = es[:nd // 3], es[2 * nd // 3:]
                            amp = max(abs(x_) for x_ in a_)
                            shift = abs(sum(c_) / len(c_) - sum(a_) / len(a_))
                            key = 'max_energy_mean_shift_over_amplitude_x100:%s' % integ
                            counters[key] = max(counters.get(key, 0), int(100 * shift / (amp + 1e-13)))
                            if gt(shift, 30 * amp + 1e-11):      # measured on the unchanged tree: up to 6 x amplitude (secular terms of multi-planet systems); a lost half kick or a non-symplectic force gives a linear drift of hundreds
                                add('conserve:energy-drifts:%s' % integ, '%s: mean dE/E of steps %d-%d differs from the mean of steps 1-%d by %.3e, oscillation amplitude in the first third %.3e' % (desc, 2 * nd // 3, nd, nd // 3, shift, amp))
                        if os.environ.get('VERIF_C04_DUMP'):
                            with open(os.environ['VERIF_C04_DUMP'], 'a') as df:
                                df.write(json.dumps(dict(desc=desc, spec=spec, hist=[(h[0], h[4]) for h in hist])) + '\n')
            cells.add(json.dumps([kind, integ, sorted(k for k in spec['opts']), unsafe]))
        elif kind == 'merge':
            integ = r.choice(['ias15', 'whfast', 'leapfrog', 'mercurius', 'trace', 'bs', 'saba', 'janus', 'janus', 'eos'])
            rr = random.Random(r.getrandbits(40))
            sysd = gen.planetary_system(rr, rr.randint(2, 4), mass_lo=1e-5, mass_hi=1e-3, hill_sep=rr.choice([1.0, 2.0]), emax=0.02)
            pl = sysd['planets']
            for i_, p in enumerate(pl):
                # radius about half the gap to the neighbour: the pair touches at its first conjunction (a few orbits)
                gaps = [abs(pl[j_]['a'] - p['a']) for j_ in (i_ - 1, i_ + 1) if 0 <= j_ < len(pl)]
                p['r'] = 0.55 * min(gaps)
            sysd['rstar'] = 0.005
            opts = gen.random_options(rr, integ, var=False)
            for k in list(opts):
                if k.endswith('safe_mode') or k.endswith('keep_unsynchronized') or k.endswith('corrector') or k.endswith('corrector2') or k.endswith('kernel'):
                    del opts[k]
            if integ == 'whfast':
                opts['ri_whfast.coordinates'] = rr.choice(['jacobi', 'democraticheliocentric', 'whds', 'barycentric'])
            grid_ = 0.0
            gridx_ = 0.0
            if integ == 'janus':
                # JANUS keeps its own integer copy of the coordinates: after a merger it has to follow the shrunken particle array
                # (position grid 1e-14: JANUS's box is 2^63 grid units wide - at 1e-16 a boosted system drifts out of +-922 within the thorough
                #  tier's 3000 steps and the integers wrap, thorough seed 9)
                opts['ri_janus.scale_pos'] = 1e-14
                opts['ri_janus.scale_vel'] = 1e-16
                grid_ = 1e-16
                gridx_ = 1e-14
            spec = dict(integrator=integ, system=sysd, opts=opts, dt=gen.inner_period(sysd) / 40.7, collision='direct', collision_resolve='merge')
            sim = gen.build_sim(spec)
            G = sim.G
            if r.random() < 0.5 and integ not in ('mercurius', 'trace'):
                # massless bodies with a physical size on their way into a planet: a merger of a massless and a massive particle must
                # leave mass, momentum and centre of mass alone just as well (the massless one sits below or above the planet in the array)
                npl_ = sim.N - 1
                for _q in range(rr.randint(1, 2)):
                    j_ = rr.randint(1, npl_)
                    pj = sim.particles[j_]
                    R_ = pj.r
                    ux, uy = math.cos(rr.uniform(0, 6.28)), math.sin(rr.uniform(0, 6.28))
                    vorb = math.sqrt(pj.vx ** 2 + pj.vy ** 2 + pj.vz ** 2)
                    sim.add(m=0.0, r=0.3 * R_, x=pj.x + 1.6 * R_ * ux, y=pj.y + 1.6 * R_ * uy, z=pj.z, vx=pj.vx - 0.03 * vorb * ux, vy=pj.vy - 0.03 * vorb * uy, vz=pj.vz + 0.2 * vorb)
                    counters['massless_bodies_on_collision_course'] = counters.get('massless_bodies_on_collision_course', 0) + 1
                if rr.random() < 0.5:
                    # ... and sometimes in front of the planets in the array
                    ps_ = [sim.particles[i_].copy() for i_ in range(sim.N)]
                    order_ = [0] + list(range(npl_ + 1, len(ps_))) + list(range(1, npl_ + 1))
                    del sim.particles
                    for i_ in order_:
                        sim.add(ps_[i_])
            if r.random() < 0.75:
                boost(sim, r)
            counters['merge_runs'] += 1
            s0 = sums(sim, G)
            t0 = sim.t
            N0 = sim.N
            desc = 'merge %s opts %r N=%d' % (integ, opts, N0)
            last = s0
            lastN = N0
            for step in range(case['merge_steps']):
                try:
                    sim.steps(1)
                except Exception as e:
                    counters['run_errors'] = counters.get('run_errors', 0) + 1
                    break
                if sim.N != lastN:
                    counters['merges'] += lastN - sim.N
                    s = sums(sim, G)
                    T = sim.t - t0
                    n = step + 1
                    if gt(abs(s['M'] - s0['M']), 16 * EPS * s0['M'] * N0):
                        add('merge:total-mass:%s' % integ, '%s: mass %r -> %r after %d mergers' % (desc, s0['M'], s['M'], N0 - sim.N))
                    dP = max(abs(s['P'][k] - s0['P'][k]) for k in range(3))
                    dX = max(abs(s['X'][k] - s0['X'][k] - s0['P'][k] * T) for k in range(3))
                    mtot_ = s0['M']
                    if gt(dP, case['KP'] * EPS * s0['Sp'] * math.sqrt(n) + 64 * grid_ * mtot_ * N0):
                        add('merge:linear-momentum:%s' % integ, '%s: |dP| = %.3e = %.1f x eps S_p sqrt(n) after a merger at step %d' % (desc, dP, dP / (EPS * s0['Sp'] * math.sqrt(n)), step))
                    if gt(dX, case['KP'] * EPS * (s0['Sx'] + s0['Sp'] * abs(T)) * math.sqrt(n) + mtot_ * ((64 * N0 + 4 * n) * gridx_ + 64 * N0 * grid_ * abs(T))):        # JANUS truncates its integer drift: n x grid, not sqrt(n)
                        add('merge:centre-of-mass-not-uniform:%s' % integ, '%s: |X_com - X0 - V t| = %.3e after a merger at step %d' % (desc, dX, step))
                    lastN = sim.N
                if sim.N < 2:
                    break
            cells.add(json.dumps(['merge', integ, lastN != N0]))
        else:
            # diagnostics
            rr = random.Random(r.getrandbits(40))
            sim = rebound.Simulation()
            sim.G = rr.choice([1.0, 6.674e-11, 39.47])
            n = rr.randint(1, 12)
            for i in range(n):
                sc = 10 ** rr.uniform(-3, 3)
                sim.add(m=10 ** rr.uniform(-10, 2) if rr.random() < 0.9 else 0.0, x=rr.uniform(-1, 1) * sc, y=rr.uniform(-1, 1) * sc, z=rr.uniform(-1, 1) * sc,
                        vx=rr.uniform(-1, 1) / math.sqrt(sc), vy=rr.uniform(-1, 1) / math.sqrt(sc), vz=rr.uniform(-1, 1) / math.sqrt(sc))
            tp = rr.random() < 0.4 and n > 1
            nact = n
            if tp:
                nact = rr.randint(1, n - 1)
                sim.N_active = nact
                sim.testparticle_type = rr.choice([0, 1])
            counters['diagnostics'] += 1
            ps = [(p.m, p.x, p.y, p.z, p.vx, p.vy, p.vz) for p in sim.particles]
            ninter = nact if (tp and sim.testparticle_type == 0) else n
            K = [0.5 * p[0] * (p[4] ** 2 + p[5] ** 2 + p[6] ** 2) for p in ps[:ninter]]
            U = [-sim.G * ps[i][0] * ps[j][0] / math.sqrt((ps[i][1] - ps[j][1]) ** 2 + (ps[i][2] - ps[j][2]) ** 2 + (ps[i][3] - ps[j][3]) ** 2) for i in range(nact) for j in range(i + 1, ninter)]
            Ewant = math.fsum(K + U)
            Esc = math.fsum(abs(x) for x in K + U) + 1e-300
            Egot = sim.energy()
            if not abs(Egot - Ewant) <= 64 * EPS * Esc * (len(K) + len(U)):
                add('diagnostic:energy', 'N=%d N_active=%d type=%d: energy() = %r, definition gives %r' % (n, nact, sim.testparticle_type, Egot, Ewant))
            Lg = sim.angular_momentum()
            for k in range(3):
                terms = [p[0] * (p[1 + (k + 1) % 3] * p[4 + (k + 2) % 3] - p[1 + (k + 2) % 3] * p[4 + (k + 1) % 3]) for p in ps]
                sc_ = math.fsum(abs(p[0]) * (abs(p[1 + (k + 1) % 3] * p[4 + (k + 2) % 3]) + abs(p[1 + (k + 2) % 3] * p[4 + (k + 1) % 3])) for p in ps) + 1e-300
                if not abs(Lg[k] - math.fsum(terms)) <= 64 * EPS * sc_ * n:
                    add('diagnostic:angular-momentum', 'N=%d: component %d: %r vs %r' % (n, k, Lg[k], math.fsum(terms)))
            c = sim.com()
            M = math.fsum(p[0] for p in ps)
            if M > 0:
                for k, got in enumerate((c.x, c.y, c.z, c.vx, c.vy, c.vz)):
                    want = math.fsum(p[0] * p[1 + k] for p in ps) / M
                    sc_ = math.fsum(abs(p[0] * p[1 + k]) for p in ps) / M + 1e-300
                    if not abs(got - want) <= 64 * EPS * sc_ * n:
                        add('diagnostic:centre-of-mass', 'N=%d: component %d: %r vs %r' % (n, k, got, want))
                if gt(abs(c.m - M), 16 * EPS * M * n):
                    add('diagnostic:centre-of-mass', 'N=%d: total mass %r vs %r' % (n, c.m, M))
            cells.add(json.dumps(['diagnostics', tp, sim.testparticle_type if tp else -1]))
    for v in viol:
        v['case_seed'] = case['seed']
    counters.update(worst)
    return dict(violations=viol, cells=[json.loads(c) for c in cells], counters=counters, sample=dict(seed=case['seed']))


def main(tier, seed):
    V = core.Verdict(PROPERTY, tier, seed)
    r = core.rng(PROPERTY, seed)
    nb = 800 if tier == 'quick' else 4000
    have512 = 'avx512f' in open('/proc/cpuinfo').read()
    nsteps = [300, 600, 1500] if tier == 'quick' else [600, 3000, 10000]
    common = dict(KP=case_KP(), KL=case_KL(), nsteps=nsteps, merge_steps=600 if tier == 'quick' else 3000)
    cases = {'rel': [], 'avx512': []}
    for i in range(nb):
        cases['rel'].append(dict(seed=r.getrandbits(40), n=3, kinds=['conserve', 'conserve', 'conserve', 'encounter', 'merge', 'diagnostics'], **common))
    for i in range(max(4, nb // 12)):
        cases['avx512'].append(dict(seed=r.getrandbits(40), n=2, kinds=['conserve'], avx512=True, **common))
    allres = []
    for variant, cs in cases.items():
        if variant == 'avx512' and not have512:
            V.inconclusive.append('CPU lacks avx512f: WHFast512 not exercised')
            continue
        res = core.run_cases('checks.c04_conservation', variant, cs, timeout_case=(240 if tier == 'quick' else 1500))
        allres += res
        for c, rr in zip(cs, res):
            V.absorb(c, rr)
    for k in list(V.counters):
        if k.startswith('worst_'):
            V.counters[k] = max(rr['counters'].get(k, 0) for rr in allres if isinstance(rr, dict) and 'counters' in rr)
    inc = []
    for k in ('runs', 'checkpoints', 'syncs_in_unsafe_mode', 'merges', 'diagnostics', 'encounter_runs', 'runs_with_com_velocity'):
        if V.counters.get(k, 0) == 0:
            inc.append('monitor counter %s is zero' % k)
    return V.finish(
        rule="random planetary systems (1-4 planets, masses 1e-7..1e-3, boosted COM) x every integrator with random documented option tuples (safe and unsafe modes) x 300-10000 steps in chunks separated by synchronize(); "
             "packed systems for the hybrid schemes; merging systems; random particle sets for the diagnostics; distinct = (kind, integrator, option names, unsafe)",
        assumptions=["rounding envelopes in units of eps * (sum of |terms|) * sqrt(steps): KP=%g for P and COM motion, KL=%g for L (measured maxima in evidence counters worst_*)" % (case_KP(), case_KL()),
                     "class bounds: IAS15 1e-12, BS 1e4-1e5 x tolerance, MERCURIUS 1e-9 / TRACE 1e-7 for L; symplectic energy < 1e-3 and max over run <= 300 x max over first third"], floor=30, inconclusive_if=inc)


def case_KP():
    return 400.0


def case_KL():
    return 400.0


def replay(path):
    return 1
