"""C01 - every integrator converges to the true N-body solution at its advertised order.

Oracle: vf/refnbody.py, an independent Gragg-Bulirsch-Stoer extrapolation integrator in long double (validated on every system by
halving its macro step: the two results must agree to 1e-13 of the system scale (its own rounding floor is ~1e-15..1e-14), otherwise the case is inconclusive).

For each random well separated system (N <= 6, masses 1e-7..1e-3, e <= 0.3, inc <= 0.3, G variants, optional test particles of
both types with and without mass) and horizon T = 2..3 inner periods in either time direction, random (integrator, option tuple)
samples from the documented lattice are run by the real reb_simulation_steps / integrate at resolutions n, 2n, 4n steps:
   error e_k = max |x - x_ref| / system size  (positions of all bodies: phase errors count)
   order    the best observed local order among the pairs above the rounding floor must reach p_min - 1 where p_min is the
            advertised minimum order of the scheme/option tuple (capped at 8: higher orders are not measurable in double)
   accuracy the finest resolution must be inside a class bound, and never worse than the coarsest
   WHFast correctors: the corrected map must not be less accurate than the uncorrected one (x3 margin)
   IAS15 adaptive / BS: error within 1e4 x tolerance class and not growing when the tolerance is tightened
User ODEs: a forced oscillator reading particle 1 (coupled, BS) and a free oscillator (uncoupled, any integrator) are integrated
   by the reference together with the N-body system and compared the same way.
"""
import os, sys, json, math, random
from vf import core, gen
from vf.num import gt, nmax as max, nmin as min

PROPERTY = "C01"
EPS = 2.0 ** -52

SABA_P = {"1": 2, "2": 2, "3": 2, "4": 2, "cm1": 2, "cm2": 4, "cm3": 4, "cm4": 4, "cl1": 2, "cl2": 4, "cl3": 4, "cl4": 4,
          "10,4": 4, "8,6,4": 4, "10,6,4": 4, "h8,4,4": 4, "h8,6,4": 4, "h10,6,4": 4}
EOS_P = {"lf": 2, "lf4": 4, "lf6": 6, "lf8": 8, "lf4_2": 2, "lf8_6_4": 4, "plf7_6_4": 4, "pmlf4": 4, "pmlf6": 4}


def run_case(case):
    import ctypes, warnings
    warnings.simplefilter('ignore')
    import numpy as np
    import rebound
    from vf import refnbody as R
    r = random.Random(case['seed'])
    viol = []
    counters = dict(systems=0, references=0, reference_rejected=0, configs=0, order_measured=0, at_rounding_floor=0, ode_runs=0, testparticle_configs=0, backward_runs=0)
    cells = set()

    def add(mech, msg):
        if len(viol) < 40:
            viol.append(dict(mech=mech, msg=msg))

    for _ in range(case['n']):
        rr = random.Random(r.getrandbits(40))
        npl = rr.randint(1, 4)
        mstar = rr.choice([1.0, 1.0, 0.5, 2.0])
        heavy = rr.random() < 0.5          # Jupiter-to-brown-dwarf mass ratios: the eps^2 terms of the generalised orders become measurable
        sysd = gen.planetary_system(rr, npl, emax=rr.choice([0.05, 0.3]), incmax=rr.choice([0.05, 0.3]), mstar=mstar, hill_sep=rr.choice([9.0, 14.0]),
                                    mass_lo=(3e-4 if heavy else 1e-7) * mstar, mass_hi=(5e-3 if heavy else 1e-3) * mstar)
        G = rr.choice([1.0, 1.0, 39.476926421373, 0.5])
        # keep the hierarchy moderate: period ratios of 1000 put the coarse runs outside any asymptotic regime of the
        # heliocentric/barycentric splittings (the plain barycentric map is then non-monotonic in dt as well)
        pl = sysd['planets']
        for i_ in range(1, len(pl)):
            lo_ = pl[i_ - 1]['a'] * (1 + pl[i_ - 1]['e']) / (1 - pl[i_]['e'])
            pl[i_]['a'] = min(pl[i_]['a'], lo_ * rr.uniform(1.9, 2.6)) if pl[i_]['a'] > 3.0 * lo_ else pl[i_]['a']
        base = rebound.Simulation()
        base.G = G
        gen.add_system(base, sysd)
        P = 2 * math.pi * math.sqrt(min(p['a'] for p in sysd['planets']) ** 3 / (G * mstar))
        # optional test particles
        tp = rr.random() < 0.3
        n_active = -1
        tp_type = 0
        if tp:
            aout = max(p['a'] for p in sysd['planets'])
            tp_type = rr.choice([0, 1])
            ain = min(p['a'] for p in sysd['planets'])
            inner = rr.random() < 0.5          # test particles inside the innermost planet feel the planets' perturbations much more strongly than distant ones
            pin0_ = min(sysd['planets'], key=lambda q_: q_['a'])
            if inner and (pin0_['a'] * (1 - pin0_.get('e', 0.0)) - 6 * pin0_['a'] * (pin0_['m'] / (3 * mstar)) ** (1.0 / 3)) / 1.1 / 1.25 < pin0_['a'] / 3.5:
                inner = False          # no room inside an eccentric / massive innermost planet for a well separated orbit: place them outside
            for k in range(rr.randint(1, 2)):
                a_tp = ain / (1.7 + 0.4 * k) if inner else aout * (1.7 + 0.5 * k)
                # ... but still well separated from it: at least 6 Hill radii between the test particle's orbit (e <= 0.1) and the pericentre
                # (apocentre) of the neighbouring planet - an eccentric Jupiter next to a/1.7 is a close-encounter system (thorough seed 9)
                pin_ = min(sysd['planets'], key=lambda q_: q_['a'])
                pout_ = max(sysd['planets'], key=lambda q_: q_['a'])
                if inner:
                    rh_ = pin_['a'] * (pin_['m'] / (3 * mstar)) ** (1.0 / 3)
                    a_tp = min(a_tp, (pin_['a'] * (1 - pin_.get('e', 0.0)) - 6 * rh_) / 1.1 / (1 + 0.25 * k))
                else:
                    rh_ = pout_['a'] * (pout_['m'] / (3 * mstar)) ** (1.0 / 3)
                    a_tp = max(a_tp, (pout_['a'] * (1 + pout_.get('e', 0.0)) + 6 * rh_) / 0.9 * (1 + 0.3 * k))
                base.add(m=(rr.choice([0.0, 1e-6]) if tp_type == 1 else 0.0), a=a_tp, e=rr.uniform(0, 0.1), inc=rr.uniform(0, 0.1), f=rr.uniform(0, 6.28), primary=base.particles[0])
                if inner:
                    P = min(P, 2 * math.pi * math.sqrt(a_tp ** 3 / (G * mstar)))
                    counters['systems_with_inner_testparticles'] = counters.get('systems_with_inner_testparticles', 0) + (k == 0)
            n_active = 1 + npl
        N = base.N
        m = [p.m for p in base.particles]
        y0 = [[p.x, p.y, p.z, p.vx, p.vy, p.vz] for p in base.particles]
        size = max(math.sqrt((p.x - base.particles[0].x) ** 2 + (p.y - base.particles[0].y) ** 2 + (p.z - base.particles[0].z) ** 2) for p in base.particles[1:])
        direction = rr.choice([1, 1, -1])
        T = direction * P * rr.uniform(2.0, 3.0)
        counters['systems'] += 1
        # ---- user ODE: z'' = -w^2 z + kappa * x_1(t)  (coupled)   and   u'' = -w^2 u (free)
        w2 = (2 * math.pi / P * 1.3) ** 2
        kappa = w2 * 0.5

        def extra(t, z, pos, vel):
            import numpy as _np
            return _np.array([z[1], -w2 * z[0] + kappa * pos[1, 0], z[3], -w2 * z[2]], dtype=_np.longdouble)
        z0 = [0.3, 0.0, 1.0, 0.0]
        Href = P / 48
        ref, zref, err1 = R.integrate(m, y0, G, T, Href, n_active=n_active, tp_type=tp_type, extra=extra, z0=z0)
        ref2, zref2, err2 = R.integrate(m, y0, G, T, Href / 2, n_active=n_active, tp_type=tp_type, extra=extra, z0=z0)
        counters['references'] += 1
        if float(np.max(np.abs(ref[:, :3] - ref2[:, :3]))) > 1e-13 * size or float(np.max(np.abs(zref - zref2))) > 1e-13:
            counters['reference_rejected'] += 1
            continue
        refx = ref2[:, :3].astype(float)
        seg = None
        refz = zref2.astype(float)

        def build(integ, opts, nsteps, with_ode=None):
            sim = rebound.Simulation()
            sim.G = G
            for p in base.particles:
                sim.add(p.copy())
            if tp:
                sim.N_active = n_active
                sim.testparticle_type = tp_type
            sim.integrator = integ
            for k_, v_ in opts.items():
                gen.set_path(sim, k_, v_)
            sim.dt = T / nsteps
            if integ == 'whfast512':
                sim.exact_finish_time = 0
            keep = []
            if with_ode:
                if with_ode == 'coupled':
                    ode = sim.create_ode(length=2, needs_nbody=True)

                    def der(odep, yDot, y, t):
                        s_ = odep.contents.r.contents
                        yDot[0] = y[1]
                        yDot[1] = -w2 * y[0] + kappa * s_.particles[1].x
                    ode.y[0], ode.y[1] = z0[0], z0[1]
                else:
                    ode = sim.create_ode(length=2, needs_nbody=False)

                    def der(odep, yDot, y, t):
                        yDot[0] = y[1]
                        yDot[1] = -w2 * y[0]
                    ode.y[0], ode.y[1] = z0[2], z0[3]
                ode.derivatives = der
                keep = [ode, der]
            return sim, keep

        def err_of(sim):
            return max(math.sqrt((p.x - q[0]) ** 2 + (p.y - q[1]) ** 2 + (p.z - q[2]) ** 2) for p, q in zip(sim.particles, refx)) / size

        for _c in range(case['configs']):
            avx = case.get('avx512', False)
            choices = ['whfast512'] if avx else ['leapfrog', 'whfast', 'whfast', 'whfast', 'saba', 'saba', 'eos', 'eos', 'janus', 'mercurius', 'trace', 'traceperi', 'sei', 'ias15', 'ias15fixed', 'bs', 'ode']
            integ = rr.choice(choices)
            if avx and (tp or G != 1.0 or N > 9 or direction < 0):
                break              # WHFast512: G=1, no test particles, forward only (documented)
            desc0 = 'N=%d%s G=%g mstar=%g T=%+.3f P' % (N, (' (N_active=%d type %d)' % (n_active, tp_type)) if tp else '', G, mstar, T / P)
            counters['configs'] += 1
            if tp:
                counters['testparticle_configs'] += 1
            if direction < 0:
                counters['backward_runs'] += 1
            if integ in ('ias15', 'bs'):
                # tolerance-controlled: accuracy class and monotonicity under tightening
                res = []
                tols = [1e-6, 1e-9] if integ == 'ias15' else [1e-6, 1e-9, 1e-12]
                # BS controls each coordinate's error against eps_abs + eps_rel |y| (documented; "the code units matter"): the same system
                # expressed in other units of length and velocity (factor lam = 2^+-20 for both, G x lam^3: an exact similarity) with the
                # tolerances expressed accordingly must stay in the same accuracy class.  'tiny': relative tolerance tol with an absolute
                # floor far below the coordinates; 'huge': absolute tolerance tol*lam with a negligible relative part.
                scal = rr.choice([None, None, 'tiny', 'huge']) if integ == 'bs' else None
                lam = {None: 1.0, 'tiny': 2.0 ** -20, 'huge': 2.0 ** 20}[scal]
                if scal:
                    counters['bs_runs_in_rescaled_units:' + scal] = counters.get('bs_runs_in_rescaled_units:' + scal, 0) + 1
                for tol in tols:
                    opts = {'ri_ias15.epsilon': tol, 'ri_ias15.adaptive_mode': rr.choice([1, 2, 3])} if integ == 'ias15' else {'ri_bs.eps_rel': tol, 'ri_bs.eps_abs': tol}
                    if scal == 'tiny':
                        opts = {'ri_bs.eps_rel': tol, 'ri_bs.eps_abs': tol * lam * 1e-3}
                    elif scal == 'huge':
                        opts = {'ri_bs.eps_rel': tol * 1e-3, 'ri_bs.eps_abs': tol * lam}
                    sim, _k = build(integ, opts, 40)
                    if scal:
                        sim.G = G * lam ** 3
                        for p_ in sim.particles:
                            p_.x *= lam; p_.y *= lam; p_.z *= lam; p_.vx *= lam; p_.vy *= lam; p_.vz *= lam
                    sim.integrate(T, exact_finish_time=1)
                    if gt(abs(sim.t - T), 1e-12 * abs(T)):
                        add('converge:did-not-reach-horizon:%s' % integ, '%s %s: t=%r, T=%r' % (desc0, opts, sim.t, T))
                    if scal:
                        for p_ in sim.particles:
                            p_.x /= lam; p_.y /= lam; p_.z /= lam
                        opts = dict(opts, units='x %g' % lam)
                    res.append((tol, err_of(sim), opts))
                cls = 1e-9 if integ == 'ias15' else None
                for tol, e, opts in res:
                    bound = 1e-10 if integ == 'ias15' else 1e4 * tol + 1e-12
                    if integ == 'ias15' and tol > 1e-8:
                        bound = 1e-5
                    if gt(e, bound):
                        add('converge:accuracy-class:%s' % integ, '%s %r: error %.3e > %.1e' % (desc0, opts, e, bound))
                if gt(res[-1][1], 10 * res[0][1] + 1e-12):
                    add('converge:error-grows-when-tolerance-tightened:%s' % integ, '%s: errors %r' % (desc0, [(t_, '%.2e' % e_) for t_, e_, _o in res]))
                cells.add(json.dumps([integ, 'tolerance']))
                continue
            if integ == 'sei':
                # SEI solves the epicyclic (Hill) motion exactly: without gravity the numerical solution must equal the closed-form
                # solution of  x'' = 2 O y' + 3 O^2 x,  y'' = -2 O x',  z'' = -Oz^2 z  for ANY step size, to rounding
                counters['sei_runs'] = counters.get('sei_runs', 0) + 1
                OM = 10 ** rr.uniform(-2, 1)
                OMZ = OM * rr.choice([1.0, 1.0, rr.uniform(0.5, 3.0)])
                s3 = rebound.Simulation()
                s3.integrator = 'sei'
                s3.gravity = 'none'
                s3.ri_sei.OMEGA = OM
                s3.ri_sei.OMEGAZ = OMZ
                ics = []
                for _p in range(rr.randint(1, 5)):
                    ic = [rr.uniform(-5, 5), rr.uniform(-5, 5), rr.uniform(-1, 1), rr.uniform(-3, 3) * OM, rr.uniform(-3, 3) * OM, rr.uniform(-1, 1) * OMZ]
                    ics.append(ic)
                    s3.add(m=0.0, x=ic[0], y=ic[1], z=ic[2], vx=ic[3], vy=ic[4], vz=ic[5])
                ns3 = rr.choice([1, 7, 100, 1000])
                dt3 = direction * rr.choice([1e-3, 0.1, 0.5, 2.0, 7.3]) / OM          # steps of many epicyclic periods are as exact as tiny ones
                s3.dt = dt3
                # ... also when the step size CHANGES during a run: the shortened last step of integrate(), a user changing (or flipping) dt
                # between steps - the rotation constants the scheme caches belong to one step size
                how3 = rr.choice(['steps', 'steps', 'integrate-exact', 'integrate-exact', 'dt-changed', 'dt-flipped'])
                if how3 == 'steps':
                    s3.steps(ns3)
                elif how3 == 'integrate-exact':
                    for _c in range(rr.choice([1, 1, 3])):
                        s3.integrate(s3.t + dt3 * (ns3 - 1 + rr.uniform(0.05, 0.95)), exact_finish_time=1)
                else:
                    k3 = rr.randint(0, ns3)
                    s3.steps(k3)
                    s3.dt = dt3 * (rr.choice([0.37, 0.5, 1.9]) if how3 == 'dt-changed' else -1.0)
                    s3.steps(ns3 - k3 + 1)
                counters['sei_runs_with_a_changing_step'] = counters.get('sei_runs_with_a_changing_step', 0) + int(how3 != 'steps')
                ns3 = max(ns3, int(s3.steps_done))
                tt = s3.t
                worst = 0.0
                for ic, p in zip(ics, s3.particles):
                    x0, y0_, z0_, vx0, vy0, vz0 = ic
                    C = vy0 + 2 * OM * x0
                    a_ = x0 - 2 * C / OM
                    b_ = vx0 / OM
                    cs, sn = math.cos(OM * tt), math.sin(OM * tt)
                    xe = 2 * C / OM + a_ * cs + b_ * sn
                    ye = y0_ - 3 * C * tt - 2 * a_ * sn + 2 * b_ * (cs - 1)
                    vxe = OM * (-a_ * sn + b_ * cs)
                    vye = C - 2 * OM * xe
                    ze = z0_ * math.cos(OMZ * tt) + vz0 / OMZ * math.sin(OMZ * tt)
                    vze = -z0_ * OMZ * math.sin(OMZ * tt) + vz0 * math.cos(OMZ * tt)
                    sc3 = abs(x0) + abs(y0_) + abs(C / OM) + abs(b_) + abs(3 * C * tt) + abs(z0_) + abs(vz0 / OMZ)
                    d3 = max(abs(p.x - xe), abs(p.y - ye), abs(p.z - ze), abs(p.vx - vxe) / OM, abs(p.vy - vye) / OM, abs(p.vz - vze) / OMZ) / sc3
                    worst = max(worst, d3)
                # rounding of ns3 rotations by O dt each: each step multiplies by a rotation known to ~1 ulp, the phase O t itself carries ns3 ulp
                bound3 = 1024 * 2.2e-16 * (ns3 + 2) * (1 + abs(OM * dt3))
                counters['max_sei_error_over_bound_x1000'] = max(counters.get('max_sei_error_over_bound_x1000', 0), int(1000 * worst / bound3))
                if gt(worst, bound3):
                    add('converge:sei-not-exact-for-epicycles', 'OMEGA=%g OMEGAZ=%g dt=%g (%.2f epicyclic periods) %d steps: deviation %.3e of the orbit size, bound %.1e' % (OM, OMZ, dt3, abs(OM * dt3) / 6.283, ns3, worst, bound3))
                cells.add(json.dumps(['sei', min(ns3, 1000), direction, how3]))
                continue
            if integ == 'traceperi':
                # TRACE with an eccentric inner planet and steps that are a sizeable fraction of its period: the pericentre switch
                # hands whole steps (FULL_BS, FULL_IAS15) or the Kepler part (PARTIAL_BS) to an accurate inner integrator.  The
                # result must stay close to the true solution (accuracy class), and FULL_BS / FULL_IAS15 - the same algorithm with
                # two different accurate inner integrators - must agree with each other far more closely than that.
                counters['trace_peri_runs'] = counters.get('trace_peri_runs', 0) + 1
                ecc = rr.uniform(0.3, 0.9)
                mpl = 10 ** rr.uniform(-6, -3)
                sysd2 = dict(kind='planets', mstar=mstar, planets=[dict(m=mpl * mstar, a=1.0, e=ecc, inc=0.0, Omega=0.0, omega=rr.uniform(0, 6.28), f=rr.uniform(0, 6.28))])
                if rr.random() < 0.5:
                    sysd2['planets'].append(dict(m=10 ** rr.uniform(-6, -3.5) * mstar, a=rr.uniform(4.0, 6.0), e=rr.uniform(0, 0.1), inc=rr.uniform(0, 0.1), Omega=rr.uniform(0, 6), omega=rr.uniform(0, 6), f=rr.uniform(0, 6)))
                b2 = rebound.Simulation()
                b2.G = G
                gen.add_system(b2, sysd2)
                P2 = 2 * math.pi * math.sqrt(1.0 / (G * mstar))
                kk = rr.choice([2.7, 4.3, 9.1, 21.0])
                dt2 = direction * P2 / kk
                ns2 = int(math.ceil(2.2 * kk))
                m2 = [p.m for p in b2.particles]
                y2 = [[p.x, p.y, p.z, p.vx, p.vy, p.vz] for p in b2.particles]
                # the deciding bounds here are 0.08 (class) and 1e-5 (differential, needs no reference): a reference good to 1e-7 suffices
                refA, _z, _e = R.integrate(m2, y2, G, ns2 * dt2, P2 / 60)
                refB, _z, _e = R.integrate(m2, y2, G, ns2 * dt2, P2 / 120)
                if float(np.max(np.abs(refA[:, :3] - refB[:, :3]))) > 1e-7:
                    counters['reference_rejected'] += 1
                    continue
                rx = refB[:, :3].astype(float)
                outp = {}
                for mode in ('FULL_BS', 'FULL_IAS15', 'PARTIAL_BS'):
                    s2 = rebound.Simulation()
                    s2.G = G
                    gen.add_system(s2, sysd2)
                    s2.integrator = 'trace'
                    s2.ri_trace.peri_mode = mode
                    s2.dt = dt2
                    for _k in range(ns2):
                        s2.steps(1)
                    s2.synchronize()
                    outp[mode] = [(p.x, p.y, p.z) for p in s2.particles]
                    e2 = max(math.dist(a_, b_) for a_, b_ in zip(outp[mode], rx))
                    key = 'max_trace_peri_error_x1e6:%s' % mode
                    counters[key] = max(counters.get(key, 0), int(e2 * 1e6))
                    # between pericentres the scheme is the second-order Wisdom-Holman map with steps up to P/2.7: a generous class bound
                    if gt(e2, 0.08):
                        add('converge:accuracy-class:trace:pericentre-switching:%s%s' % (mode, ':backward' if direction < 0 else ''), 'G=%g mstar=%g dir=%+d: e=%.2f m=%.1e dt=P/%.1f %d steps %s: position error %.3e (units of a)' % (G, mstar, direction, ecc, mpl, kk, ns2, mode, e2))
                dd = max(math.dist(a_, b_) for a_, b_ in zip(outp['FULL_BS'], outp['FULL_IAS15']))
                counters['max_trace_full_bs_vs_full_ias15_x1e9'] = max(counters.get('max_trace_full_bs_vs_full_ias15_x1e9', 0), int(dd * 1e9))
                if gt(dd, 1e-5):
                    add('converge:trace:full-bs-and-full-ias15-disagree', 'e=%.2f m=%.1e dt=P/%.1f %d steps G=%g mstar=%g dir=%d: FULL_BS and FULL_IAS15 end %.3e apart' % (ecc, mpl, kk, ns2, G, mstar, direction, dd))
                cells.add(json.dumps(['traceperi', kk, direction]))
                continue
            if integ == 'ode':
                counters['ode_runs'] += 1
                mode = rr.choice(['coupled-bs', 'free-bs', 'free-other', 'free-stiff', 'free-stiff'])
                if mode == 'free-stiff':
                    # an oscillator that is FAST compared with the host's step: the ODE is then advanced by several Bulirsch-Stoer sub-steps
                    # per N-body step and has to arrive exactly at the end of each step (closed-form solution, no reference run needed)
                    host = rr.choice(['whfast', 'leapfrog', 'ias15', 'saba', 'mercurius'])
                    nst = 40
                    dth = T / nst
                    om = rr.choice([0.3, 3.0, 12.0, 40.0]) / abs(dth)
                    for tol in (1e-6, 1e-10):
                        sim, _k = build(host if host != 'ias15' else 'ias15', {'ri_bs.eps_rel': tol, 'ri_bs.eps_abs': tol}, nst)
                        if host == 'ias15':
                            sim.dt = dth
                        ode_ = sim.create_ode(length=3, needs_nbody=False)

                        def der_(odep, yDot, y, t, om=om):
                            yDot[0] = y[1]
                            yDot[1] = -om * om * y[0]
                            yDot[2] = om * math.cos(om * t)          # non-autonomous: the right-hand side must be handed the ODE's own time
                        ode_.derivatives = der_
                        ode_.y[0], ode_.y[1], ode_.y[2] = 1.0, 0.0, 0.0
                        if host == 'ias15':
                            sim.integrate(T, exact_finish_time=1)
                        else:
                            sim.steps(nst)
                        tt = sim.t
                        e = max(abs(ode_.y[0] - math.cos(om * tt)), abs(ode_.y[1] / om + math.sin(om * tt)))
                        # global error of an accepted-tolerance integrator over om*T radians
                        allow = 1e3 * tol * max(1.0, om * abs(tt)) + 1e-10
                        counters['ode_stiff_runs'] = counters.get('ode_stiff_runs', 0) + 1
                        e3 = abs(ode_.y[2] - math.sin(om * tt))
                        if gt(e3, allow):
                            add('converge:user-ode:time-argument', '%s host %s om*dt=%.1f tol %.0e: y\' = om cos(om t) integrated to t=%g gives %.6f, sin(om t) = %.6f' % (desc0, host, om * abs(dth), tol, tt, ode_.y[2], math.sin(om * tt)))
                        if gt(e, allow):
                            add('converge:user-ode:free-stiff', '%s host %s om*dt=%.1f tol %.0e: ODE state at t=%g off by %.3e (allowed %.1e)' % (desc0, host, om * abs(dth), tol, tt, e, allow))
                        del ode_
                    cells.add(json.dumps(['ode', mode, host]))
                    continue
                if mode == 'coupled-bs':
                    host, which, want = 'bs', 'coupled', refz[0:2]
                elif mode == 'free-bs':
                    host, which, want = 'bs', 'free', refz[2:4]
                else:
                    host, which, want = rr.choice(['whfast', 'ias15', 'leapfrog']), 'free', refz[2:4]
                res = []
                for tol in (1e-6, 1e-10):
                    sim, keep = build(host, {'ri_bs.eps_rel': tol, 'ri_bs.eps_abs': tol}, 200, with_ode=which)
                    sim.integrate(T, exact_finish_time=1)
                    ode = keep[0]
                    e = max(abs(ode.y[0] - want[0]), abs(ode.y[1] - want[1]) / math.sqrt(w2))
                    res.append((tol, e))
                    if gt(e, 1e4 * tol + 1e-11):
                        add('converge:user-ode:%s' % mode, '%s host %s tol %.0e: ODE error %.3e' % (desc0, host, tol, e))
                cells.add(json.dumps(['ode', mode]))
                continue
            # ---- fixed-step schemes: order measurement
            opts = {}
            pmin = 2
            if integ == 'whfast':
                opts = gen.random_options(rr, 'whfast')
                for k_ in ('ri_whfast.safe_mode', 'ri_whfast.keep_unsynchronized'):
                    opts.pop(k_, None)
                if rr.random() < 0.3:
                    # the advertised high-order combinations (WHCKL / WHCKM / WHCKC): alternative kernel + high-order corrector, Jacobi coordinates
                    opts['ri_whfast.kernel'] = rr.choice(['modifiedkick', 'lazy', 'composition'])
                    opts['ri_whfast.corrector'] = rr.choice([11, 17])
                    opts['ri_whfast.coordinates'] = 'jacobi'
                    opts.pop('ri_whfast.corrector2', None)
                if tp and tp_type == 1 and opts.get('ri_whfast.coordinates') == 'whds':
                    opts['ri_whfast.coordinates'] = 'democraticheliocentric'
                # Rein, Tamayo & Brown 2019 (documented in integrators.md): with a high-order symplectic corrector the kernels
                # modifiedkick / lazy / composition leave an error O(eps dt^k + eps^2 dt^4), k >= 7 here: fourth order in dt for
                # EVERY particle, test particles included (the default kernel leaves eps^2 dt^2)
                # (second correctors are designed for the standard kernel; their combination with another kernel is not an advertised scheme)
                if opts.get('ri_whfast.kernel') in ('modifiedkick', 'lazy', 'composition') and opts.get('ri_whfast.corrector') in (7, 11, 17) and not opts.get('ri_whfast.corrector2'):
                    pmin = 4
                    counters['whfast_fourth_order_configs'] = counters.get('whfast_fourth_order_configs', 0) + 1
                    if tp and tp_type == 0:
                        kk = 'whfast_fourth_order_with_type0_testparticles:%s' % opts['ri_whfast.kernel']
                        counters[kk] = counters.get(kk, 0) + 1
            elif integ == 'saba':
                ty = rr.choice(gen.SABA_TYPES)
                opts = {'ri_saba.type': ty}
                pmin = SABA_P[ty]
            elif integ == 'eos':
                p0, p1 = rr.choice(gen.EOS_TYPES), rr.choice(gen.EOS_TYPES)
                opts = {'ri_eos.phi0': p0, 'ri_eos.phi1': p1, 'ri_eos.n': rr.choice([1, 2, 3, 5])}
                pmin = min(EOS_P[p0], EOS_P[p1])
            elif integ == 'janus':
                o = rr.choice([2, 4, 6, 8, 10])
                opts = {'ri_janus.order': o, 'ri_janus.scale_pos': 1e-16 * size, 'ri_janus.scale_vel': 1e-16 * size / P * 6}
                pmin = o
            elif integ == 'mercurius':
                opts = {'ri_mercurius.L': rr.choice(['mercury', 'infinity', 'C4', 'C5']), 'ri_mercurius.r_crit_hill': rr.choice([2.0, 3.0])}
            elif integ == 'trace':
                opts = {'ri_trace.peri_mode': rr.choice(['FULL_BS', 'PARTIAL_BS', 'FULL_IAS15']), 'ri_trace.r_crit_hill': rr.choice([2.0, 3.0])}
            elif integ == 'ias15fixed':
                opts = {'ri_ias15.epsilon': 0.0}
                pmin = 15
            elif integ == 'whfast512':
                opts = {'ri_whfast512.gr_potential': 0}
            if tp and integ in ('mercurius', 'trace', 'janus', 'whfast512') and tp_type == 1:
                continue
            real = 'ias15' if integ == 'ias15fixed' else integ
            pcap = min(pmin, 8)
            nbase = {2: 100, 4: 50, 6: 40, 8: 36}.get(pcap, 36)
            if integ == 'ias15fixed':
                nbase = 12
            if integ == 'leapfrog':
                nbase = 300
            nbase *= int(os.environ.get('VERIF_C01_NMUL', '1'))        # debugging aid: finer resolutions for a replayed case
            errs = []
            nmin = int(math.ceil(abs(T) / P * 8))          # never coarser than 8 steps per inner period
            while True:
                errs = []
                for k in range(3):
                    ns = nbase * 2 ** k
                    sim, _k = build(real, opts, ns)
                    try:
                        sim.steps(ns)
                        sim.synchronize()
                    except Exception as e_:
                        errs = None
                        add('converge:run-failed:%s' % integ, '%s %r: %r' % (desc0, opts, e_))
                        break
                    if gt(abs(sim.t - T), 1e-9 * abs(T)):
                        add('converge:time-after-n-steps:%s' % integ, '%s %r: t=%r after %d steps of T/%d' % (desc0, opts, sim.t, ns, ns))
                    errs.append(err_of(sim))
                # tiny mass ratios put accurate schemes at the rounding floor: coarsen until the order is measurable
                if errs is None or errs[0] >= 3e-9 or nbase // 2 < nmin:
                    break
                nbase //= 2
            if not errs:
                continue
            desc = '%s %s %r errors at n=%d,x2,x4: %s' % (desc0, integ, opts, nbase, ' '.join('%.3e' % e for e in errs))
            if os.environ.get('VERIF_C01_VERBOSE') and pmin == 4 and integ == 'whfast':
                print(desc, 'masses', m, file=sys.stderr)
            floor = 1e-13 * max(1.0, abs(T) / P)          # reference ~1e-14, REBOUND's own rounding over these step counts ~1e-14..1e-13
            qs = []
            lower_bounds_only = []
            strong = False
            for a_, b_ in ((0, 1), (1, 2)):
                if errs[b_] > floor * 3 and errs[a_] > errs[b_]:
                    qs.append(math.log(errs[a_] / errs[b_], 2))          # usable pair: the finer error is still above the rounding floor
                elif errs[a_] > floor * 30:
                    qs.append(math.log(errs[a_] / (floor * 3), 2))       # the finer run reached the floor: a lower bound of the order
                    lower_bounds_only.append(len(qs) - 1)
                if errs[a_] > max(floor * 30, 1e-10) and errs[b_] > floor * 3:
                    strong = True                                        # and at least one pair sits well above it
            if qs and strong:
                counters['order_measured'] += 1
                if integ == 'whfast' and pmin == 4 and tp and tp_type == 0:
                    counters['order_measured:whfast_fourth_order_with_type0_testparticles'] = counters.get('order_measured:whfast_fourth_order_with_type0_testparticles', 0) + 1
                key = 'min_order_margin_x100:%s' % integ
                counters[key] = min(counters.get(key, 10 ** 6), int((max(qs) - pcap) * 100))
                semi0 = tp and tp_type == 1 and any(q_ > 0 for q_ in m[n_active:]) and (opts.get('ri_whfast.kernel') in ('modifiedkick', 'lazy') or str(opts.get('ri_saba.type', '')).startswith(('cm', 'cl')))
                qf = None
                if errs[2] > floor * 30 and errs[1] > errs[2] and not semi0:
                    qf = math.log(errs[1] / errs[2], 2)
                    if os.environ.get('VERIF_C01_NOTES') and qf < pcap - 1.0 and integ in ('whfast', 'saba'):
                        with open(os.environ['VERIF_C01_NOTES'], 'a') as nf:
                            nf.write('%.2f %s masses %r\n' % (qf, desc, m))
                    key = 'min_finest_pair_order_margin_x100:%s:p%d' % (integ, pcap)
                    counters[key] = min(counters.get(key, 10 ** 6), int((qf - pcap) * 100))
                semi = tp and tp_type == 1 and any(q_ > 0 for q_ in m[n_active:]) and (opts.get('ri_whfast.kernel') in ('modifiedkick', 'lazy') or str(opts.get('ri_saba.type', '')).startswith(('cm', 'cl')))
                thr = pcap - (1.0 if pcap <= 4 else (2.0 if pcap <= 6 else 2.5))   # 6th/8th order compositions sit 1-2.1 below their order at 12-24 steps per period (measured over 5 thorough seeds); a wrong coefficient drops them to order 2
                if max(qs) < thr and lower_bounds_only:
                    # a pair whose finer run sits at the rounding floor only bounds the order from below: the dynamic range between the
                    # coarser error and the floor is too small to show the advertised order - not measurable, not a violation
                    counters['order_not_resolvable_above_floor'] = counters.get('order_not_resolvable_above_floor', 0) + 1
                elif pcap == 4 and integ in ('whfast', 'saba') and qf is not None and errs[2] > 1e-9 and qf < 2.6:
                    # fourth-order WHFast/SABA combinations: while the error is still far above every floor (> 1e-9) the FINEST pair must show
                    # the order too - a coarse pair dominated by a steeper eps dt^k term must not hide an eps^2 dt^2 remainder
                    add('converge:order-below-advertised:%s' % integ, '%s: finest pair shows order %.2f with errors still above 1e-9, advertised minimum %d' % (desc, qf, pmin))
                elif max(qs) < thr:
                    add('converge:order-below-advertised:%s%s' % (integ, ':jacobi-gravity-with-massive-semi-active-test-particles' if semi else ''), '%s: observed orders %s, advertised minimum %d' % (desc, ['%.2f' % q for q in qs], pmin))
            else:
                counters['at_rounding_floor'] += 1
            # accuracy: finest resolution inside a class bound and never worse than the coarsest
            bound = {'leapfrog': 0.2, 'janus': 0.3 if pmin == 2 else 1e-2}.get(integ, 2e-2 if pcap == 2 else 1e-3)
            semi_ = tp and tp_type == 1 and any(q_ > 0 for q_ in m[n_active:]) and (opts.get('ri_whfast.kernel') in ('modifiedkick', 'lazy') or str(opts.get('ri_saba.type', '')).startswith(('cm', 'cl')))
            if semi_ and (errs[-1] > bound or errs[-1] > 1.5 * errs[0] + floor * 10):
                # known finding (Jacobi gravity ignores N_active): the run converges to a different solution, however that shows up
                add('converge:order-below-advertised:%s:jacobi-gravity-with-massive-semi-active-test-particles' % integ, '%s: does not converge to the reference' % desc)
            else:
                if gt(errs[-1], bound):
                    add('converge:accuracy-class:%s' % integ, '%s: error at the finest resolution above %.1e' % (desc, bound))
                if gt(errs[-1], 1.5 * errs[0] + floor * 10):
                    add('converge:error-grows-with-resolution:%s' % integ, desc)
            # WHFast correctors: a symplectic corrector removes the periodic O(eps dt^2) part of the error; what remains grows secularly
            # and can exceed the plain map's error at particular phases.  Compared over four output times it must never be far worse
            # than the plain map (a broken corrector stage is 1e3-1e4 times worse at every time).
            if integ == 'whfast' and (opts.get('ri_whfast.corrector') or opts.get('ri_whfast.corrector2')):
                o2 = dict((k_, v_) for k_, v_ in opts.items() if 'corrector' not in k_)
                if 'seg' not in locals() or seg is None:
                    seg = [q_[:, :3].astype(float) for q_ in R.integrate_segments(m, y0, G, T, Href / 2, 4, n_active=n_active, tp_type=tp_type)]
                worst = {}
                for lab, oo in (('corrected', opts), ('plain', o2)):
                    sim, _k = build('whfast', oo, 100)
                    w_ = 0.0
                    for k4 in range(4):
                        sim.steps(25)
                        sc_ = sim.copy()
                        sc_.synchronize()
                        w_ = max(w_, max(math.sqrt((p.x - q[0]) ** 2 + (p.y - q[1]) ** 2 + (p.z - q[2]) ** 2) for p, q in zip(sc_.particles, seg[k4])) / size)
                    worst[lab] = w_
                counters['corrector_comparisons'] = counters.get('corrector_comparisons', 0) + 1
                if gt(worst['corrected'], 30 * worst['plain'] + 1e-9):
                    add('converge:corrector-degrades-accuracy:whfast', '%s: max error over 4 output times with corrector %.3e, without %.3e' % (desc, worst['corrected'], worst['plain']))
            cells.add(json.dumps([integ, sorted((k_, str(v_)) for k_, v_ in opts.items() if 'scale' not in k_), tp, direction]))
    for v in viol:
        v['case_seed'] = case['seed']
    return dict(violations=viol, cells=[json.loads(c) for c in cells], counters=counters, sample=dict(seed=case['seed']))


def main(tier, seed):
    V = core.Verdict(PROPERTY, tier, seed)
    r = core.rng(PROPERTY, seed)
    nb = 128 if tier == 'quick' else 1600
    have512 = 'avx512f' in open('/proc/cpuinfo').read()
    cases = {'rel': [], 'avx512': []}
    for i in range(nb):
        cases['rel'].append(dict(seed=r.getrandbits(40), n=2, configs=10))
    for i in range(max(4, nb // 16)):
        cases['avx512'].append(dict(seed=r.getrandbits(40), n=2, configs=2, avx512=True))
    allres = []
    for variant, cs in cases.items():
        if variant == 'avx512' and not have512:
            V.inconclusive.append('CPU lacks avx512f: WHFast512 not exercised')
            continue
        res = core.run_cases('checks.c01_convergence', variant, cs, timeout_case=900)
        allres += res
        for c, rr in zip(cs, res):
            V.absorb(c, rr)
    for k in list(V.counters):
        if k.startswith('min_order_margin_x100:') or k.startswith('min_finest_pair_order_margin_x100:'):
            V.counters[k] = min(rr['counters'].get(k, 10 ** 6) for rr in allres if isinstance(rr, dict) and 'counters' in rr)
    inc = []
    for k in ('systems', 'references', 'configs', 'order_measured', 'ode_runs', 'testparticle_configs', 'backward_runs'):
        if V.counters.get(k, 0) == 0:
            inc.append('monitor counter %s is zero' % k)
    if V.counters.get('reference_rejected', 0) > 0.2 * max(1, V.counters.get('references', 0)):
        inc.append('more than 20% of the references failed their own step-halving validation')
    return V.finish(
        rule="random well separated systems (1-4 planets + optional test particles of both types, 4 G values, 3 stellar masses, both time directions) x random samples of the option lattice "
             "(WHFast 4 coordinates x 4 kernels x 6 correctors x corrector2; 18 SABA types; 9x9 EOS splittings x n; JANUS orders; MERCURIUS switching functions; TRACE peri modes; IAS15 fixed/adaptive modes; BS tolerances; WHFast512; user ODEs) "
             "x 3 resolutions; distinct = (integrator, option tuple, test particles, direction)",
        assumptions=["reference = independent long-double GBS integrator, accepted only if halving its macro step changes nothing above 1e-13",
                     "advertised minimum orders: tables SABA_P / EOS_P in the check (generalised orders (2n,2) count as 2), capped at 8; one order of slack (two for orders 6 and 8) for pre-asymptotic effects",
                     "class bounds: IAS15 1e-10, BS 1e4 x tolerance, fixed-step schemes 1e-3 (2e-2 for order 2, 0.2 for leapfrog) at the finest resolution"], floor=40, inconclusive_if=inc)


def replay(path):
    return 1
