"""C02 - every force routine computes the specified pairwise Newtonian sum.

Oracle = the specification, implemented independently in numpy long double:
  a_i = -G sum_gb sum_{j in S(i)} m_j (x_i+gb-x_j) / (|x_i+gb-x_j|^2 + s^2)^{3/2}
  S(i): active j != i ; plus test particles j acting on active i iff testparticle_type==1 ; never test-test ;
  gravity_ignore_terms 1 drops the pair (0,1), 2 drops every pair involving 0 ; ghost images gb over [-Ng,Ng]^3 box lengths, self images excluded.
Bound per particle: |da_i| <= K eps sum_j |term_ij|  (sum of magnitudes: cancellation cannot cause a false alarm).
Sub-monitors: BASIC, COMPENSATED, TREE(theta=0) == all-active direct sum, TREE(theta>0) multipole bound and monotone in theta,
JACOBI == BASIC through one WHFast step, MERCURIUS mode0+mode1 and TRACE interaction+kepler parts add up to the full force
(for all switching functions / random K masks), sum m_i a_i = 0 when all particles are active.
"""
import json, math, random
from vf import core
from vf.num import gt, nmax as max, nmin as min

PROPERTY = "C02"
EPS = 2.0 ** -52


def oracle(np, x, m, G, soft, N_active, tptype, ignore, ghosts, box, pairs_mask=None):
    """returns (a [N,3] longdouble, mag [N] longdouble = sum of |terms|).  pairs_mask[i,j]=True -> j acts on i allowed."""
    N = len(m)
    ld = np.longdouble
    X = x.astype(ld)
    M = m.astype(ld)
    a = np.zeros((N, 3), dtype=ld)
    mag = np.zeros(N, dtype=ld)
    if N == 0:
        return a, mag
    Na = N if N_active == -1 else N_active
    act = np.arange(N) < Na
    allow = np.zeros((N, N), dtype=bool)       # allow[i,j]: j acts on i
    allow[:, act] = True                        # actives act on everyone
    if tptype == 1:
        allow[np.ix_(act, ~act)] = True         # test particles act on actives
    np.fill_diagonal(allow, False)
    if ignore == 1 and N > 1:
        allow[0, 1] = allow[1, 0] = False
    if ignore == 2:
        allow[0, :] = False
        allow[:, 0] = False
    if pairs_mask is not None:
        allow &= pairs_mask
    gx, gy, gz = ghosts
    for bx in range(-gx, gx + 1):
        for by in range(-gy, gy + 1):
            for bz in range(-gz, gz + 1):
                gb = np.array([bx * box[0], by * box[1], bz * box[2]], dtype=ld) if (gx or gy or gz) else np.zeros(3, dtype=ld)
                d = (X[:, None, :] + gb) - X[None, :, :]            # d[i,j] = x_i+gb-x_j
                r2 = (d ** 2).sum(axis=2) + ld(soft) ** 2
                with np.errstate(divide='ignore', invalid='ignore'):
                    w = np.where(allow, ld(G) * M[None, :] / (r2 * np.sqrt(r2)), ld(0))
                w = np.where(np.isfinite(w), w, ld(0))
                a -= (w[:, :, None] * d).sum(axis=1)
                mag += (np.abs(w) * np.sqrt((d ** 2).sum(axis=2))).sum(axis=1)
    return a, mag


def run_case(case):
    import ctypes, warnings
    warnings.simplefilter('ignore')
    import numpy as np
    import rebound
    from rebound import clibrebound as clib
    r = random.Random(case['seed'])
    kind = case['kind']
    viol = []
    counters = {'cases:' + kind: 1, 'particles_checked': 0}
    N = case['N']
    G = case['G']
    soft = case['soft']
    L = 10.0
    # positions / masses
    x = np.array([[r.uniform(-L / 2 * 0.95, L / 2 * 0.95) for _ in range(3)] for _ in range(N)], dtype=float).reshape(N, 3)
    m = np.array([0.0 if r.random() < 0.15 else 10 ** r.uniform(-15, 0) for _ in range(N)], dtype=float)
    if kind in ('jacobi', 'mercurius', 'trace') and N:
        m[0] = 1.0

    def make_sim(grav):
        sim = rebound.Simulation()
        sim.G = G
        sim.softening = soft
        if case.get('box'):
            sim.configure_box(L, *case['nroot'])
            sim.boundary = case.get('boundary', 'periodic')
            sim.N_ghost_x, sim.N_ghost_y, sim.N_ghost_z = case['ghosts']
        sim.gravity = grav
        for i in range(N):
            sim.add(m=float(m[i]), x=float(x[i, 0]), y=float(x[i, 1]), z=float(x[i, 2]), vx=r.uniform(-1, 1), vy=r.uniform(-1, 1), vz=r.uniform(-1, 1))
        sim.N_active = case['N_active']
        sim.testparticle_type = case['tptype']
        sim.gravity_ignore = case['ignore']
        sim.testparticle_hidewarnings = 1
        return sim

    def setf(obj, name, val):
        """set a ctypes field that may be spelled with or without a leading underscore; never create a plain attribute by accident"""
        names = [f[0] for f in type(obj)._fields_]
        for cand in (name, '_' + name, name.lstrip('_')):
            if cand in names:
                setattr(obj, cand, val)
                return
        raise AttributeError('%s has no ctypes field %r' % (type(obj).__name__, name))

    def getf(obj, name):
        names = [f[0] for f in type(obj)._fields_]
        for cand in (name, '_' + name, name.lstrip('_')):
            if cand in names:
                return getattr(obj, cand)
        raise AttributeError(name)

    def acc(sim):
        return np.array([[sim.particles[i].ax, sim.particles[i].ay, sim.particles[i].az] for i in range(sim.N)], dtype=float).reshape(sim.N, 3)

    def compare(got, want, mag, K, mech, extra=''):
        if N == 0:
            return
        err = np.sqrt(((got.astype(np.longdouble) - want) ** 2).sum(axis=1))
        bound = K * EPS * mag + np.longdouble(1e-300)
        counters['particles_checked'] += N
        bad = np.where(~(err <= bound))[0]
        ratio = float((err / bound).max()) if N else 0.0
        counters['max_err_over_bound_permille:' + kind] = max(counters.get('max_err_over_bound_permille:' + kind, 0), int(min(ratio, 1e6) * 1000))
        if len(bad):
            i = int(bad[0])
            viol.append(dict(mech=mech, msg='%s particle %d of %d: |a_got-a_spec|=%.3e bound=%.3e (got %r, spec %r) %s' % (
                kind, i, N, float(err[i]), float(bound[i]), got[i].tolist(), [float(q) for q in want[i]], extra)))

    box = (L * case['nroot'][0], L * case['nroot'][1], L * case['nroot'][2]) if case.get('box') else (0, 0, 0)
    ghosts = tuple(case['ghosts']) if case.get('box') else (0, 0, 0)
    nterms = max(1, N * (2 * ghosts[0] + 1) * (2 * ghosts[1] + 1) * (2 * ghosts[2] + 1))
    nontrivial = False
    if kind in ('basic', 'compensated'):
        sim = make_sim(kind)
        if case.get('box') and case['nroot'] != [1, 1, 1]:
            # particles spread over the whole (multi-root) box
            for i in range(N):
                sim.particles[i].x = float(x[i, 0]) + L * 0.5 * (case['nroot'][0] - 1) * r.choice([-1, 1]) * 0
        clib.reb_simulation_update_acceleration(ctypes.byref(sim))
        got = acc(sim)
        want, mag = oracle(np, x, m, G, soft, case['N_active'], case['tptype'], case['ignore'], ghosts, box)
        K = (64 + 4 * math.sqrt(nterms)) if kind == 'basic' else 32
        compare(got, want, mag, K, 'force:%s-differs-from-specified-sum' % kind)
        # does the partition / ignore / ghost setting matter for this case (non-triviality)?
        plain, _ = oracle(np, x, m, G, soft, -1, 0, 0, (0, 0, 0), box)
        nontrivial = bool(N and float(np.abs(plain - want).max()) > 0)
        Na = N if case['N_active'] == -1 else case['N_active']
        if Na == N and case['ignore'] == 0 and N > 0:
            # momentum: sum m_i a_i = 0
            tot = (m[:, None] * got).astype(np.longdouble).sum(axis=0)
            scale = (np.abs(m[:, None] * got)).astype(np.longdouble).sum()
            counters['momentum_checks'] = 1
            if gt(float(np.abs(tot).max()), (64 + 4 * math.sqrt(nterms)) * EPS * float(scale) + 1e-300):
                viol.append(dict(mech='force:%s-net-momentum-change' % kind, msg='sum m_i a_i = %r, scale %.3e' % ([float(q) for q in tot], float(scale))))
    elif kind == 'tree':
        th2 = case['theta2']
        sim = make_sim('tree')
        sim.opening_angle2 = th2
        sim.update_tree()
        clib.reb_simulation_update_tree_gravity_data(ctypes.byref(sim))
        clib.reb_simulation_update_acceleration(ctypes.byref(sim))
        # the tree update may re-order particles: read positions back
        xs = np.array([[p.x, p.y, p.z] for p in sim.particles], dtype=float).reshape(sim.N, 3)
        ms = np.array([p.m for p in sim.particles], dtype=float)
        got = acc(sim)
        want, mag = oracle(np, xs, ms, G, soft, -1, 0, 0, ghosts, box)
        if th2 == 0.0:
            compare(got, want, mag, 64 + 4 * math.sqrt(nterms), 'force:tree-theta0-differs-from-direct-sum')
            nontrivial = N > 2
        else:
            # multipole bound: |da_i| <= 8 theta^2 sum_j G m_j / r_ij^2 ; and errors do not increase when theta shrinks (factor 2 slack, vs theta/2)
            err = np.sqrt(((got.astype(np.longdouble) - want) ** 2).sum(axis=1)) if N else np.zeros(0)
            # the multipole bound is written in terms of the UNSOFTENED pair magnitudes G m_j / r_ij^2 (the derivatives of the Plummer
            # kernel are bounded by those of the Newtonian one, its own magnitudes are not a valid scale once r < softening)
            mag0 = mag
            if soft > 0:
                _w0, mag0 = oracle(np, xs, ms, G, 0.0, -1, 0, 0, ghosts, box)
                counters['tree_softened_cases'] = counters.get('tree_softened_cases', 0) + 1
            bound = 8 * th2 * mag0 + 64 * EPS * mag0
            # with ghost boxes, a cell that is not opened contains the particle's own image: the direct routines (and the tree at theta=0)
            # exclude self images, the monopole of an unopened cell includes them. The specification does not say which is meant,
            # so the self-image terms G m_i/|gb|^2 are allowed as slack (they are not multipole truncation error).
            if any(ghosts):
                self_img = np.zeros(len(ms), dtype=np.longdouble)
                for bx in range(-ghosts[0], ghosts[0] + 1):
                    for by in range(-ghosts[1], ghosts[1] + 1):
                        for bz in range(-ghosts[2], ghosts[2] + 1):
                            if (bx, by, bz) != (0, 0, 0):
                                d2 = (bx * box[0]) ** 2 + (by * box[1]) ** 2 + (bz * box[2]) ** 2
                                self_img += G * ms / d2
                bound = bound + 1.01 * self_img
            counters['particles_checked'] += N
            bad = np.where(~(err <= bound))[0]
            if len(bad):
                i = int(bad[0])
                viol.append(dict(mech='force:tree-multipole-bound', msg='theta2=%g particle %d: err %.3e > 8 theta^2 sum|F| = %.3e' % (th2, i, float(err[i]), float(bound[i]))))
            sim.opening_angle2 = th2 / 4
            clib.reb_simulation_update_acceleration(ctypes.byref(sim))
            got2 = acc(sim)
            err2 = np.sqrt(((got2.astype(np.longdouble) - want) ** 2).sum(axis=1)) if N else np.zeros(0)
            if N and not any(ghosts) and gt(float(err2.sum()), 2 * float(err.sum()) + 64 * EPS * float(mag.sum())):
                viol.append(dict(mech='force:tree-error-grows-when-theta-shrinks', msg='sum err(theta2=%g)=%.3e, sum err(theta2=%g)=%.3e' % (th2, float(err.sum()), th2 / 4, float(err2.sum()))))
            if soft > 0 and N > 8 and not any(ghosts):
                # differential: the multipole error of the Plummer-softened kernel is not larger than that of the Newtonian kernel on the
                # same tree (its higher derivatives are smaller); a cell accepted with the wrong force law shows up as an error that GROWS
                # with the softening.  Same positions, same tree, same opening angle, softening switched off:
                sim.opening_angle2 = th2
                sim.softening = 0.0
                clib.reb_simulation_update_acceleration(ctypes.byref(sim))
                got0 = acc(sim)
                want0, _m0 = oracle(np, xs, ms, G, 0.0, -1, 0, 0, ghosts, box)
                err0 = np.sqrt(((got0.astype(np.longdouble) - want0) ** 2).sum(axis=1))
                sim.softening = soft
                e_s, e_0 = float(err.sum()), float(err0.sum())
                if e_0 > 0:
                    counters['max_softened_over_unsoftened_tree_error_x100'] = max(counters.get('max_softened_over_unsoftened_tree_error_x100', 0), int(100 * e_s / e_0))
                if gt(e_s, 3 * e_0 + 64 * EPS * float(mag0.sum())):
                    viol.append(dict(mech='force:tree-softened-error-exceeds-unsoftened', msg='theta2=%g softening=%g N=%d: sum of multipole errors %.3e with softening, %.3e without' % (th2, soft, N, e_s, e_0)))
            nontrivial = N > 8 and float(err.sum()) > 0
    elif kind == 'jacobi':
        # one WHFast step (Jacobi coordinates, default kernel) with gravity basic vs the Jacobi routine must agree to rounding
        # order particles by distance so that Jacobi coordinates are well conditioned
        out = []
        for grav in ('basic', 'jacobi'):
            sim = rebound.Simulation()
            sim.G = G
            sim.add(m=1.0)
            rr = random.Random(case['seed'] + 1)
            for i in range(1, N):
                sim.add(m=float(m[i]) if (m[i] > 0 or case['seed'] % 2) else 1e-12, a=1.0 + 0.6 * i + rr.uniform(0, 0.2), e=rr.uniform(0, 0.2), inc=rr.uniform(0, 0.3), f=rr.uniform(0, 6.28),
                        omega=rr.uniform(0, 6.28), Omega=rr.uniform(0, 6.28), primary=sim.particles[0])
            sim.move_to_com()
            sim.integrator = 'whfast'
            sim.dt = 0.01
            sim.gravity = grav
            sim.steps(1)
            out.append(np.array([[p.x, p.y, p.z, p.vx, p.vy, p.vz] for p in sim.particles]))
        d = np.abs(out[0] - out[1]).max() if N else 0.0
        sc = np.abs(out[0]).max() if N else 1.0
        counters['particles_checked'] += N
        if gt(d, 2e3 * EPS * sc):
            viol.append(dict(mech='force:jacobi-differs-from-basic', msg='after one WHFast step: max|diff|=%.3e scale %.3e N=%d' % (d, sc, N)))
        counters['jacobi_cases_with_exactly_massless_bodies'] = counters.get('jacobi_cases_with_exactly_massless_bodies', 0) + int(case['seed'] % 2 == 1 and bool((m[1:] == 0).any()))
        nontrivial = N >= 3
    elif kind in ('mercurius', 'trace'):
        sim = rebound.Simulation()
        sim.G = G
        sim.softening = soft
        sim.add(m=1.0)
        rr = random.Random(case['seed'] + 2)
        for i in range(1, N):
            sim.add(m=min(float(m[i]), 1e-4) if not (case['N_active'] != -1 and i >= case['N_active'] and case['tptype'] == 0) else 0.0, a=1.0 + 0.25 * i + rr.uniform(0, 0.05), e=rr.uniform(0, 0.05), inc=rr.uniform(0, 0.05), f=rr.uniform(0, 6.28), primary=sim.particles[0])
        sim.integrator = kind
        sim.dt = 1e-3
        if kind == 'mercurius':
            sim.ri_mercurius.L = case['L']
            sim.ri_mercurius.r_crit_hill = case['rcrit']
        sim.N_active = case['N_active']
        sim.testparticle_type = case['tptype']
        sim.testparticle_hidewarnings = 1
        sim.steps(1)                    # allocates dcrit / maps / current_Ks
        Nn = sim.N
        # heliocentric positions: particle 0 at the origin (the split routines assume it)
        p0 = [sim.particles[0].x, sim.particles[0].y, sim.particles[0].z]
        for p in sim.particles:
            p.x -= p0[0]
            p.y -= p0[1]
            p.z -= p0[2]
        Na = Nn if case['N_active'] == -1 else case['N_active']
        ri = sim.ri_mercurius if kind == 'mercurius' else sim.ri_trace
        # encounter set: a random subset of the particles (always the star), in increasing index order as the integrators build it,
        # so that map[i] != i in general. Members are placed at distances comparable to their changeover radii (switching function
        # strictly between 0 and 1); non-members are moved far away (switching function exactly 1 towards everybody), which is the
        # precondition under which the two parts must add up to the full force for the members.
        members = [0] + sorted(i for i in range(1, Nn) if rr.random() < 0.7)
        if len(members) < 3 and Nn >= 3:
            members = [0] + sorted(rr.sample(range(1, Nn), 2))
        dc = [1e-2] * Nn
        if kind == 'mercurius':
            dcp = getf(ri, 'dcrit')
            dc = [dcp[i] for i in range(Nn)]
        prev = None
        for i in range(1, Nn):
            p = sim.particles[i]
            if i in members:
                if prev is None:
                    p.x, p.y, p.z = 1.0, 0.3, 0.02
                else:
                    q = sim.particles[prev]
                    sep = max(dc[i], dc[prev], 1e-3) * rr.uniform(0.15, 1.1)
                    u = [rr.gauss(0, 1) for _ in range(3)]
                    nu = math.sqrt(sum(t * t for t in u))
                    p.x, p.y, p.z = q.x + sep * u[0] / nu, q.y + sep * u[1] / nu, q.z + sep * u[2] / nu
                prev = i
            else:
                p.x, p.y, p.z = 500.0 + 300.0 * i, 100.0 * i, 7.0 * i
        nmem = len(members)
        emap = (ctypes.c_int * Nn)(*(members + [0] * (Nn - nmem)))
        ctypes.memmove(getf(ri, 'encounter_map'), emap, ctypes.sizeof(ctypes.c_int) * Nn)
        setf(ri, 'encounter_N', nmem)
        setf(ri, 'encounter_N_active', sum(1 for i in members if i < Na))
        counters['split_map_not_identity'] = int(any(members[k] != k for k in range(nmem)))
        xs = np.array([[p.x, p.y, p.z] for p in sim.particles], dtype=float).reshape(Nn, 3)
        ms = np.array([p.m for p in sim.particles], dtype=float)
        if kind == 'trace':
            Ks = (ctypes.c_int * (Nn * Nn))()
            for i in range(Nn):
                for j in range(i + 1, Nn):
                    v = 1 if (rr.random() < 0.5 and i in members and j in members) else 0   # K=1 (pair handled in the Kepler part) only occurs among encounter members
                    Ks[i * Nn + j] = v
                    Ks[j * Nn + i] = v
            ctypes.memmove(getf(ri, 'current_Ks'), Ks, ctypes.sizeof(Ks))
        parts = []
        for mode in (0, 1):
            setf(ri, 'mode', mode)
            clib.reb_simulation_update_acceleration(ctypes.byref(sim))
            parts.append(acc(sim))
        setf(ri, 'mode', 0)
        got = parts[0] + parts[1]
        want, mag = oracle(np, xs, ms, G, soft, case['N_active'], case['tptype'], 0, (0, 0, 0), (0, 0, 0))
        # in the heliocentric split the star feels no acceleration and is not part of either routine's output
        for i in range(Nn):
            if i == 0 or i not in members:      # only members of the encounter set are decided (others keep stale values in part 1)
                got[i] = 0
                want[i] = 0
                mag[i] = 0
        compare(got, want, mag, 256, 'force:%s-parts-do-not-add-up' % kind, extra='L=%s' % case.get('L'))
        # the two parts must each be non-trivial for the case to count
        mem = [i for i in members if i > 0]
        nontrivial = bool(len(mem) >= 2 and np.abs(parts[0][mem]).max() > 0 and np.abs(parts[1][mem] - want[mem].astype(float)).max() > 0)
        counters['split_both_parts_nonzero'] = int(nontrivial)
    Na = N if case['N_active'] == -1 else case['N_active']
    cell = [kind, 'N0' if N == 0 else 'N1' if N == 1 else 'N2' if N == 2 else 'Nmany', 'allactive' if Na == N else ('notest' if Na == 0 else 'split'), case['tptype'], case['ignore'],
            str(ghosts), str(case.get('nroot')), case.get('L'), case['variant']] if (nontrivial or N <= 2) else None
    for v in viol:
        v['case'] = {k: case[k] for k in case}
    return dict(violations=viol, cell=cell, counters=counters, sample=dict(case) if r.random() < 0.01 else None)


def plan(tier, seed):
    r = core.rng(PROPERTY, seed)
    n = 12000 if tier == "quick" else 150000
    out = {'rel': [], 'asan': []}
    for i in range(n):
        variant = 'asan' if i % 6 == 5 else 'rel'
        kind = r.choice(['basic'] * 6 + ['compensated'] * 2 + ['tree'] * 3 + ['jacobi', 'mercurius', 'mercurius', 'trace', 'trace'])
        N = r.choice([0, 1, 2, 3, 4, 5, 8, 13, 30, 60]) if r.random() < 0.9 else r.choice([100, 200])
        c = dict(kind=kind, seed=r.getrandbits(40), N=N, G=r.choice([1.0, 1.0, 6.674e-11, 39.478, 1e5]), soft=r.choice([0.0, 0.0, 1e-3, 0.1]),
                 N_active=-1, tptype=r.choice([0, 1]), ignore=0, variant=variant)
        if kind in ('basic', 'compensated'):
            c['N_active'] = r.choice([-1, -1, 0, 1, max(0, N - 1), N, r.randint(0, N)])
            c['ignore'] = r.choice([0, 0, 1, 2])
            if kind == 'basic' and r.random() < 0.4:
                c['box'] = True
                c['nroot'] = r.choice([[1, 1, 1], [1, 1, 1], [2, 1, 1], [3, 2, 1]])
                c['ghosts'] = r.choice([[0, 0, 0], [1, 0, 0], [1, 1, 0], [1, 1, 1], [2, 1, 0], [0, 2, 2]])
                c['boundary'] = r.choice(['periodic', 'open'])
                if N > 60:
                    c['ghosts'] = [1, 0, 0]
        elif kind == 'tree':
            c['box'] = True
            c['nroot'] = r.choice([[1, 1, 1], [2, 1, 1], [2, 2, 1]])
            c['ghosts'] = r.choice([[0, 0, 0], [0, 0, 0], [1, 0, 0], [1, 1, 0], [1, 1, 1]])
            c['boundary'] = 'periodic'
            c['theta2'] = r.choice([0.0, 0.0, 0.01, 0.09, 0.25])
            c['tptype'] = 0
            if c['theta2'] > 0:
                # softened tree forces: cells that are accepted as a whole must use the same Plummer-softened law as the leaves
                # (softening from negligible to comparable with the distance of accepted cells; box length 10)
                c['soft'] = r.choice([0.0, 0.0, 0.05, 0.5, 2.0])
        elif kind == 'jacobi':
            c['N'] = r.choice([2, 3, 4, 6, 9])
            c['soft'] = 0.0
            c['tptype'] = 0
        else:
            c['N'] = r.choice([2, 4, 5, 7, 10])
            c['N_active'] = r.choice([-1, -1, c['N'] - 2 if c['N'] > 3 else -1])
            c['L'] = r.choice(['mercury', 'infinity', 'C4', 'C5']) if kind == 'mercurius' else None
            c['rcrit'] = r.choice([3.0, 10.0, 30.0])
        out[variant].append(c)
    return out


def main(tier, seed):
    from checks.c14_bookkeeping import crash_mech
    V = core.Verdict(PROPERTY, tier, seed)
    for variant, cases in plan(tier, seed).items():
        res = core.run_cases('checks.c02_forces', variant, cases, timeout_case=300)
        for c, rr in zip(cases, res):
            V.absorb(c, rr, crash_mech)
    inc = []
    for k in ('cases:basic', 'cases:compensated', 'cases:tree', 'cases:jacobi', 'cases:mercurius', 'cases:trace', 'momentum_checks', 'split_both_parts_nonzero'):
        if V.counters.get(k, 0) == 0:
            inc.append('monitor counter %s is zero' % k)
    return V.finish(
        rule="random configurations (N 0..200, masses incl. 0 and ratios 1e-15, softening, G, N_active, testparticle_type, gravity_ignore_terms, ghost boxes, root layouts) per routine; "
             "non-trivial = the partition/ignore/ghost setting changes the specified answer (or N<=2 edge), tree: N>2, splits: both parts non-zero; "
             "distinct = (routine, N class, active-split class, type, ignore, ghosts, roots, L, build)",
        assumptions=["numpy long double oracle of the specification", "bounds are multiples of eps * sum of |pair terms|"], floor=40, inconclusive_if=inc)


def replay(path):
    return 1
