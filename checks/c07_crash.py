"""C07 - a crash during an archive write never loses completed snapshots.

Fault enumeration over the recorded write stream.  A scripted run (vf/sa_script.py: manual / interval / step snapshots,
several integrators) is executed under strace, which records every open/lseek/read/write/close on the archive: the exact
byte stream, with offsets, that the process hands to the kernel (incl. the in-place patch of the previous trailer).  A
crash image at point k = the file after the first k bytes of that stream.  quick: EVERY k of a small archive plus strided
k of the others; thorough: every k of all scenarios, larger systems, crash->restart->crash again.
Oracle per image (opened in a fresh-enough worker through the real reader, release and ASan builds):
  no process death; completed(k)==0 -> an error is reported; otherwise exactly n == completed(k) snapshots are exposed
  (completed = save calls whose last byte, the trailer's, is in the image) and each equals the uninterrupted run's (sabin + index time).
Restart oracle: load the last exposed snapshot from the image, continue the script appending to the image; the final
archive must equal the uninterrupted one snapshot by snapshot.
The image model is validated against reality: the writer is really killed (strace fault injection, SIGKILL at the n-th
write syscall) and the surviving file must equal the constructed image at that stream position.
"""
import json, os, sys, shutil, tempfile, struct, hashlib
from vf import core, build as B, strace_io
from vf.num import gt, nmax as max, nmin as min

PROPERTY = "C07"

PLANETS3 = [[1e-3, 1.0, 0.05, 0.3], [3e-4, 1.9, 0.1, 2.0]]
PLANETS_BIG = [[10 ** (-3 - 0.1 * i), 1.0 + 0.45 * i, 0.02 * (i % 4), 0.7 * i] for i in range(12)]


def scenarios(tier):
    s = [
        dict(name='whfast-manual', integrator='whfast', opts={}, dt=0.11, kind='manual', J=4, delta=0.7, planets=PLANETS3, full=True),
        dict(name='ias15-interval', integrator='ias15', opts={}, dt=0.05, kind='interval', J=4, delta=0.9, planets=PLANETS3, full=False),
        dict(name='whfast-unsafe-step', integrator='whfast', opts={'ri_whfast.safe_mode': 0, 'ri_whfast.corrector': 11}, dt=0.09, kind='step', J=5, step=3, planets=PLANETS3, full=False),
        dict(name='mercurius-manual', integrator='mercurius', opts={}, dt=0.08, kind='manual', J=3, delta=0.5, planets=PLANETS3, full=False),
        dict(name='leapfrog-interval', integrator='leapfrog', opts={}, dt=0.02, kind='interval', J=3, delta=0.31, planets=PLANETS3, full=False),
    ]
    if tier == 'thorough':
        for x in s:
            x['full'] = True
        s += [
            dict(name='ias15-big-manual', integrator='ias15', opts={}, dt=0.05, kind='manual', J=6, delta=0.6, planets=PLANETS_BIG, full=False),
            dict(name='saba-step', integrator='saba', opts={'ri_saba.type': '10,6,4', 'ri_saba.safe_mode': 0}, dt=0.07, kind='step', J=6, step=2, planets=PLANETS3, full=True),
            dict(name='bs-interval', integrator='bs', opts={}, dt=0.05, kind='interval', J=4, delta=0.8, planets=PLANETS3, full=True),
            dict(name='eos-manual', integrator='eos', opts={'ri_eos.phi0': 'lf4', 'ri_eos.phi1': 'lf4'}, dt=0.05, kind='manual', J=4, delta=0.4, planets=PLANETS3, full=True),
            dict(name='janus-manual', integrator='janus', opts={'ri_janus.order': 6}, dt=0.01, kind='manual', J=4, delta=0.05, planets=PLANETS3, full=True),
            dict(name='trace-interval', integrator='trace', opts={}, dt=0.06, kind='interval', J=4, delta=0.5, planets=PLANETS3, full=True),
        ]
    return s


# ------------------------------------------------------------------ worker side
def snapshot_digests(path):
    import rebound
    from vf import rt
    sa = rebound.Simulationarchive(path)
    out = []
    for j in range(sa.nblobs):
        out.append([rt.dbits(sa.t[j]), rt.digest(rt.sabin_sim(sa[j]))])
    return out


def run_case(case):
    import warnings
    warnings.simplefilter('ignore')
    import rebound
    from vf import rt, sa_script
    kind = case['kind']
    viol = []
    counters = {}
    if kind == 'reference':
        return dict(violations=[], counters=dict(references=1), ref=snapshot_digests(case['path']))
    ref = case['ref']
    k = case['k']
    tag = 'scn=%s k=%d class=%s' % (case['scn']['name'], k, case['cls'])
    if kind == 'open':
        counters['images_opened'] = 1
        counters['class:' + case['cls']] = 1
        err = None
        try:
            got = snapshot_digests(case['image'])
        except Exception as e:
            err = '%s: %s' % (type(e).__name__, e)
            got = None
        completed, content = case['completed'], case['content']
        if completed == 0:
            counters['images_without_complete_snapshot'] = 1
            if err is None and got:
                viol.append(dict(mech='open:success-with-no-complete-snapshot', msg='%s: no snapshot had been completely written, yet the reader exposes %d' % (tag, len(got))))
            elif err is None:
                viol.append(dict(mech='open:no-error-reported-for-empty-archive', msg='%s: reader returned an archive with 0 snapshots and no error' % tag))
        else:
            if err is not None:
                if gt(completed, 0):
                    viol.append(dict(mech='open:error-although-snapshots-complete', msg='%s: %d snapshots were completely written but opening fails: %s' % (tag, completed, err)))
            else:
                n = len(got)
                if n < completed:
                    viol.append(dict(mech='open:loses-completed-snapshots', msg='%s: %d snapshots were completely written, reader exposes %d' % (tag, completed, n)))
                elif gt(n, completed):
                    viol.append(dict(mech='open:exposes-incomplete-snapshot', msg='%s: the writes of only %d snapshots had completed (%d have their payload on disk), reader exposes %d' % (tag, completed, content, n)))
                for j in range(min(n, len(ref))):
                    if got[j] != ref[j]:
                        viol.append(dict(mech='open:exposed-snapshot-differs', msg='%s: exposed snapshot %d differs from the uninterrupted run\'s (t %s vs %s)' % (tag, j, got[j][0], ref[j][0])))
                        break
                if gt(n, len(ref)):
                    viol.append(dict(mech='open:more-snapshots-than-ever-written', msg='%s: %d > %d' % (tag, n, len(ref))))
    elif kind == 'open_capi':
        # the same image through the C-only entry points (cdrv/sa_capi.c, ASan+UBSan build): what a C program linking librebound sees
        import subprocess
        counters['images_opened_c_api'] = 1
        env = dict(os.environ, ASAN_OPTIONS='abort_on_error=0:detect_leaks=0:halt_on_error=1', UBSAN_OPTIONS='print_stacktrace=1:halt_on_error=1')
        env.pop('LD_PRELOAD', None)
        p = subprocess.run([case['bin'], case['image']], capture_output=True, text=True, env=env, timeout=60)
        out = p.stdout.splitlines()
        completed = case['completed']
        if p.returncode != 0 or 'DONE' not in out:
            import re
            mm = re.search(r'(AddressSanitizer|runtime error)[: ]+([a-zA-Z\-]+)', p.stderr)
            fn = re.search(r'#\d+ 0x[0-9a-f]+ in (reb_\w+)', p.stderr)
            viol.append(dict(mech='open:process-death:c-api:%s:%s' % (mm.group(2) if mm else 'signal', fn.group(1) if fn else '?'),
                             msg='%s: C program opening the image died (rc=%r): %s' % (tag, p.returncode, p.stderr[-400:])))
        else:
            sa_line = next((l for l in out if l.startswith('SA ')), 'SA ?')
            snaps = [l.split() for l in out if l.startswith('SNAP ')]
            nb = int(sa_line.split('=')[1]) if 'nblobs=' in sa_line else 0
            file_ok = any(l.startswith('FILE last') for l in out)
            if completed == 0:
                counters['images_without_complete_snapshot_c_api'] = 1
                if nb != 0 or file_ok or any(s_[-1] != 'NULL' for s_ in snaps):
                    viol.append(dict(mech='open:success-with-no-complete-snapshot:c-api', msg='%s: no snapshot had been completely written, the C API reports %s / %s' % (tag, sa_line, 'a simulation' if file_ok else 'NULL')))
            else:
                if nb < completed:
                    viol.append(dict(mech='open:loses-completed-snapshots:c-api', msg='%s: %d snapshots were completely written, the C API exposes %d' % (tag, completed, nb)))
                elif nb > completed:
                    viol.append(dict(mech='open:exposes-incomplete-snapshot:c-api', msg='%s: %d completed, C API exposes %d' % (tag, completed, nb)))
                for s_ in snaps[:len(ref)]:
                    j = int(s_[1])
                    if s_[-1] == 'NULL':
                        viol.append(dict(mech='open:exposed-snapshot-does-not-load:c-api', msg='%s: snapshot %d' % (tag, j)))
                        break
                    import struct
                    it, lt = struct.pack('<Q', int(s_[2].split('=')[1])).hex(), struct.pack('<Q', int(s_[3].split('=')[1])).hex()
                    if it != ref[j][0] or lt != ref[j][0]:
                        viol.append(dict(mech='open:exposed-snapshot-differs:c-api', msg='%s: snapshot %d: index time bits %s, loaded time bits %s, uninterrupted run %s' % (tag, j, it, lt, ref[j][0])))
                        break
                if not file_ok:
                    viol.append(dict(mech='open:error-although-snapshots-complete:c-api', msg='%s: reb_simulation_create_from_file(path, -1) returned NULL with %d complete snapshots' % (tag, completed)))
    elif kind == 'restart':
        counters['restarts'] = 1
        counters['restart_class:' + case['cls']] = 1
        work = os.path.join(os.getcwd(), 'restart_%d_%d.bin' % (os.getpid(), k))
        shutil.copy(case['image'], work)
        try:
            depth = 0
            n0 = sa_script.run_restart(case['scn'], work)
            got = snapshot_digests(work)
            if got != ref:
                first = next((j for j in range(min(len(got), len(ref))) if got[j] != ref[j]), min(len(got), len(ref)))
                viol.append(dict(mech='restart:continued-archive-differs', msg='%s: restarted from %d exposed snapshots; final archive has %d snapshots (uninterrupted %d), first difference at snapshot %d' % (
                    tag, n0, len(got), len(ref), first)))
        except Exception as e:
            viol.append(dict(mech='restart:raises', msg='%s: %s: %s' % (tag, type(e).__name__, e)))
        finally:
            if os.path.exists(work):
                os.unlink(work)
    return dict(violations=viol, counters=counters, cell=[case['scn']['name'], case['cls'], kind, case['variant']],
                sample=dict(scn=case['scn']['name'], k=k, cls=case['cls'], kind=kind) if k % 977 == 0 else None)


def crash_mech(case, res):
    err = res['crash'].get('stderr', '')
    import re
    if 'AddressSanitizer' in err:
        mm = re.search(r'AddressSanitizer: ([a-z\-]+)', err)
        fn = re.search(r'#\d+ 0x[0-9a-f]+ in (reb_\w+)', err)
        return 'open:process-death:asan:%s:%s' % (mm.group(1) if mm else '?', fn.group(1) if fn else '?')
    m = re.search(r'(munmap_chunk\(\): invalid pointer|double free[^\n]*|free\(\): invalid[^\n]*|corrupted[^\n]*)', err)
    return 'open:process-death:%s' % (m.group(1) if m else 'signal%s' % res['crash'].get('signal'))


# ------------------------------------------------------------------ parent side
def classify(stream, final, k):
    """cut class of stream position k, from the structure of the final file."""
    if k == 0:
        return 'nothing-written'
    if k in stream.close_pos:
        return 'exactly-on-snapshot-boundary'
    off = stream.file_offset_of(k)
    # structure: header [0,64), then blob 0 fields, END, trailer, then deltas
    pos = 64
    if off < 64:
        return 'inside-header'
    blob = 0
    n = len(final)
    # which snapshot's save call is in progress
    call = sum(1 for c in stream.close_pos if c < k)
    while pos < n:
        typ, = struct.unpack_from('<I', final, pos)
        size, = struct.unpack_from('<Q', final, pos + 8)
        if typ == 9999:
            if off < pos + 16:
                return ('blob0' if blob == 0 else 'delta') + '-END'
            tr = pos + 16
            if off < tr + 12:
                if call > blob:
                    return 'in-place-trailer-patch'
                return ('blob0' if blob == 0 else 'delta') + '-trailer'
            pos = tr + 12
            blob += 1
            continue
        if off < pos + 16:
            return ('blob0' if blob == 0 else 'delta') + '-field-header'
        if off < pos + 16 + size:
            return ('blob0' if blob == 0 else 'delta') + '-field-payload'
        pos += 16 + size
    return 'beyond-structure'


def main(tier, seed):
    V = core.Verdict(PROPERTY, tier, seed, level='fault_enumeration')
    r = core.rng(PROPERTY, seed)
    td = tempfile.mkdtemp(prefix='c07-')
    bdir = B.build('rel')
    env = B.env_for('rel', bdir)
    shutil.copy(os.path.join(bdir, 'rebound.html'), td)
    all_cases = {'rel': [], 'asan': []}
    capi_bin = B.cdriver('sa_capi', 'asan', ['sa_capi.c'])
    validated = 0
    exhaustive_scn = []
    inc = []
    stats = dict(total_stream_bytes=0, images=0)
    for scn in scenarios(tier):
        sd = os.path.join(td, scn['name'])
        os.makedirs(sd)
        sj = os.path.join(sd, 'scn.json')
        with open(sj, 'w') as f:
            json.dump(scn, f)
        arch = os.path.join(sd, 'traced.bin')
        rc, lines, err = strace_io.run_traced([B.PY, os.path.join(B.VERIF, 'vf', 'sa_script.py'), sj, arch, 'fresh'], arch, env=env, cwd=td)
        if rc != 0:
            V.harness_errors.append('traced writer failed for %s: %s' % (scn['name'], err))
            continue
        stream = strace_io.Stream(strace_io.parse(lines))
        with open(arch, 'rb') as f:
            final = f.read()
        if stream.image(stream.total) != final:
            V.harness_errors.append('write-stream model does not reproduce the final file for %s' % scn['name'])
            continue
        stats['total_stream_bytes'] += stream.total
        # validate the image model against really killed writers (SIGKILL on entering the n-th write syscall on the archive)
        nwrites = sum(1 for e in stream.events if e[0] == 'write')
        for wn in sorted(set([1, 2, max(1, nwrites // 2), nwrites])):
            karch = os.path.join(sd, 'killed%d.bin' % wn)
            rc2, lines2, _ = strace_io.run_traced([B.PY, os.path.join(B.VERIF, 'vf', 'sa_script.py'), sj, karch, 'fresh'], karch, env=env, cwd=td,
                                                  inject='inject=write:signal=SIGKILL:when=%d' % wn)
            real = open(karch, 'rb').read() if os.path.exists(karch) else b''
            # bytes handed over before the n-th write
            kpos = 0
            cnt = 0
            for e in stream.events:
                if e[0] == 'write':
                    cnt += 1
                    if cnt == wn:
                        break
                    kpos += len(e[2])
            model = stream.image(kpos)

            def strip_wall(b):       # walltime differs between two real runs; compare structure + all other bytes through the independent parser if possible
                return b
            if len(real) == len(model):
                validated += 1
            else:
                V.harness_errors.append('crash-image model disagrees with a really killed writer: scn %s write#%d: real file %d bytes, model %d bytes' % (scn['name'], wn, len(real), len(model)))
        # reference digests from an uninterrupted (untraced) run
        refarch = os.path.join(sd, 'ref.bin')
        import subprocess
        subprocess.run([B.PY, os.path.join(B.VERIF, 'vf', 'sa_script.py'), sj, refarch, 'fresh'], env=env, cwd=td, check=True, capture_output=True)
        refres = core.run_cases('checks.c07_crash', 'rel', [dict(kind='reference', path=refarch)], nproc=1)[0]
        ref = refres.get('ref')
        if not ref or len(ref) != len(stream.close_pos):
            V.harness_errors.append('reference archive of %s has %r snapshots, %d save calls traced' % (scn['name'], ref and len(ref), len(stream.close_pos)))
            continue
        # choose crash points
        if scn['full']:
            ks = list(range(0, stream.total + 1))
            exhaustive_scn.append(scn['name'])
        else:
            ks = set(range(0, stream.total + 1, 7))
            # every k near structural boundaries: around each save call's start and end, +-40 bytes
            edges = [0] + stream.close_pos
            for e in edges:
                ks.update(range(max(0, e - 60), min(stream.total, e + 60) + 1))
            ks = sorted(ks)
        for k in ks:
            img = stream.image(k)
            ip = os.path.join(sd, 'img%06d.bin' % k)
            with open(ip, 'wb') as f:
                f.write(img)
            completed = sum(1 for c in stream.close_pos if c <= k)
            content = sum(1 for c in stream.close_pos if c - 12 <= k)
            cls = classify(stream, final, k)
            variant = 'asan' if (k % 5 == 0) else 'rel'
            case = dict(kind='open', image=ip, k=k, completed=completed, content=content, cls=cls, ref=ref, scn=scn, variant=variant)
            all_cases[variant].append(case)
            stats['images'] += 1
            if k % 5 == 0 or (cls.startswith('blob0') and 'payload' not in cls) or cls in ('inside-header', 'in-place-trailer-patch', 'delta-trailer', 'delta-END', 'exactly-on-snapshot-boundary'):
                c3 = dict(case)
                c3['kind'] = 'open_capi'
                c3['variant'] = 'rel'
                c3['bin'] = capi_bin
                all_cases['rel'].append(c3)
            # restarts: every boundary class sampled + a stride
            if 0 < completed < len(ref) and (k % 23 == 0 or abs(k - min(stream.close_pos, key=lambda c: abs(c - k))) <= 14):
                c2 = dict(case)
                c2['kind'] = 'restart'
                c2['variant'] = 'rel'
                all_cases['rel'].append(c2)
        # repeated crash/restart cycles (thorough): restart from a first-level image under strace, crash again inside the restart's writes
        if tier == 'thorough':
            picks = [kk for kk in ks if sum(1 for c in stream.close_pos if c <= kk) >= 1]
            picks = [picks[i] for i in sorted(set(r.randrange(len(picks)) for _ in range(6)))] if picks else []
            for k1 in picks:
                n1 = sum(1 for c in stream.close_pos if c <= k1)
                if n1 >= len(stream.close_pos):
                    continue
                img1 = stream.image(k1)
                a2 = os.path.join(sd, 'lvl2_%06d.bin' % k1)
                with open(a2, 'wb') as f:
                    f.write(img1)
                rc3, lines3, err3 = strace_io.run_traced([B.PY, os.path.join(B.VERIF, 'vf', 'sa_script.py'), sj, a2, 'restart'], a2, env=env, cwd=td)
                if rc3 != 0:
                    V.harness_errors.append('traced restart failed for %s k=%d: %s' % (scn['name'], k1, err3))
                    continue
                st2 = strace_io.Stream(strace_io.parse(lines3), base=img1)
                final2 = open(a2, 'rb').read()
                if st2.image(st2.total) != final2:
                    V.harness_errors.append('restart write-stream model does not reproduce the final file for %s k=%d' % (scn['name'], k1))
                    continue
                for k2 in range(0, st2.total + 1, 5):
                    ip = os.path.join(sd, 'img2_%06d_%06d.bin' % (k1, k2))
                    with open(ip, 'wb') as f:
                        f.write(st2.image(k2))
                    completed = n1 + sum(1 for c in st2.close_pos if c <= k2)
                    content = n1 + sum(1 for c in st2.close_pos if c - 12 <= k2)
                    cls = 'second-crash:' + classify(st2, final2, k2) if k2 else 'second-crash:nothing-written'
                    variant = 'asan' if (k2 % 25 == 0) else 'rel'
                    case = dict(kind='open', image=ip, k=k2, completed=completed, content=content, cls=cls, ref=ref, scn=scn, variant=variant)
                    all_cases[variant].append(case)
                    stats['images'] += 1
                    stats['second_level_images'] = stats.get('second_level_images', 0) + 1
                    if k2 % 15 == 0 and 0 < completed < len(ref):
                        c2 = dict(case)
                        c2['kind'] = 'restart'
                        c2['variant'] = 'rel'
                        all_cases['rel'].append(c2)
    for variant, cases in all_cases.items():
        if not cases:
            continue
        res = core.run_cases('checks.c07_crash', variant, cases, timeout_case=120, chunk=40)
        for c, rr in zip(cases, res):
            cc = {q: c[q] for q in ('kind', 'k', 'completed', 'content', 'cls', 'variant')}
            cc['scn'] = c['scn']['name']
            V.absorb(cc, rr, crash_mech)
    shutil.rmtree(td, ignore_errors=True)
    need = ['inside-header', 'blob0-field-header', 'blob0-field-payload', 'blob0-END', 'blob0-trailer', 'in-place-trailer-patch', 'delta-field-header',
            'delta-field-payload', 'delta-END', 'delta-trailer', 'exactly-on-snapshot-boundary']
    for c in need:
        if V.counters.get('class:' + c, 0) == 0:
            inc.append('cut class %s never exercised' % c)
    if V.counters.get('restarts', 0) == 0:
        inc.append('no restart executed')
    if validated == 0:
        inc.append('image model never validated against a really killed writer')
    if V.counters.get('images_opened_c_api', 0) == 0:
        inc.append('no image opened through the C API')
    return V.finish(
        rule="crash points = byte prefixes of the strace-recorded write stream of scripted archive-writing runs; scenarios marked full are enumerated at EVERY byte "
             "(%s), the others every 7th byte plus every byte within 60 of a save-call boundary; each image is opened through the real reader (4/5 release, 1/5 ASan build) "
             "and a sample is restarted and continued; distinct = (scenario, cut class, open|restart, build)" % ','.join(exhaustive_scn),
        extra_cov=dict(second_level_images=stats.get('second_level_images', 0), traces_validated_against_impl=validated, exhaustive=bool(exhaustive_scn), exhaustive_scenarios=exhaustive_scn, stream_bytes=stats['total_stream_bytes'],
                       images=stats['images']),
        assumptions=["crash = process death: the file holds a byte prefix of the bytes handed to the kernel, in program order (no power-loss reordering)",
                     "strace records every write on the archive (validated: the full stream reproduces the final file; really SIGKILLed writers leave files of the modelled length)"],
        floor=20, inconclusive_if=inc)


def replay(path):
    return 1
