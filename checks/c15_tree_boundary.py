"""C15 - boundaries and the spatial tree keep every particle accounted for.

 boundary monitor (every step, leapfrog/sei without gravity so that the unwrapped end position is known exactly):
   periodic/shear: every particle inside the box afterwards, N unchanged, identity multiset unchanged, position differs from the
   unwrapped position by whole box lengths (shear: plus k * 1.5 OMEGA Lx t in y (mod Ly) and k * 1.5 OMEGA Lx in vy for k radial
   crossings), other velocity components untouched;  open: exactly the particles whose unwrapped position is outside are removed.
 tree monitor (read-only walk of tree_root through a ctypes mirror of struct reb_treecell whose layout is compared with DWARF
   first), at the two moments the code itself has just brought the tree up to date: inside the force callback (gravity tree) and
   at the end of a step (collision tree):
   geometry of every cell from its parent / the root grid, every live particle in exactly one leaf, leaf contains its particle,
   particle.c points back at the leaf, interior counts equal the number of leaves below and are >= 2 (derefinement), no flagged
   (NaN) particle left, and with tree gravity the cell masses / centres of mass equal the sums over their contents.
 histories: 30-300 steps with speeds up to several boxes per step, 1..18 root boxes, user removals/additions between steps,
   merging / bouncing collisions, open-boundary removals.
"""
import json, math, random
from vf import core
from vf.num import gt, nmax as max, nmin as min

PROPERTY = "C15"
EPS = 2.0 ** -52


def run_case(case):
    import ctypes, warnings
    warnings.simplefilter('ignore')
    import rebound
    from rebound import clibrebound as clib
    r = random.Random(case['seed'])
    viol = []
    counters = dict(steps=0, tree_walks_at_force_time=0, tree_walks_at_step_end=0, cells_visited=0, leaves_visited=0, wraps=0, multi_box_wraps=0, shear_radial_wraps=0,
                    open_removals=0, user_removals=0, user_adds=0, root_crossings=0, merges_seen=0, mass_checks=0, max_depth=0)
    cells = set()

    class TreeCell(ctypes.Structure):
        pass
    TreeCell._fields_ = [('x', ctypes.c_double), ('y', ctypes.c_double), ('z', ctypes.c_double), ('w', ctypes.c_double), ('m', ctypes.c_double), ('mx', ctypes.c_double),
                         ('my', ctypes.c_double), ('mz', ctypes.c_double), ('oct', ctypes.POINTER(TreeCell) * 8), ('pt', ctypes.c_int), ('remote', ctypes.c_int)]
    lay = case['layout']
    for nm, off in lay['offsets'].items():
        if getattr(TreeCell, nm).offset != off:
            raise RuntimeError('tree cell mirror does not match DWARF: %s at %d vs %d' % (nm, getattr(TreeCell, nm).offset, off))
    if ctypes.sizeof(TreeCell) != lay['size']:
        raise RuntimeError('tree cell mirror size %d vs DWARF %d' % (ctypes.sizeof(TreeCell), lay['size']))

    def add(mech, msg):
        if len(viol) < 40:
            viol.append(dict(mech=mech, msg=msg))

    def walk(sim, where, desc, check_mass):
        """returns list of problems (mech, msg)"""
        out = []
        N = sim.N
        ps = sim.particles
        root = ctypes.cast(sim._tree_root, ctypes.POINTER(ctypes.POINTER(TreeCell)))
        if not sim._tree_root:
            out.append(('tree:no-tree-while-in-use', '%s: tree_root is NULL' % desc))
            return out
        seen = {}
        nx, ny, nz = sim.N_root_x, sim.N_root_y, sim.N_root_z
        rs = sim.root_size
        bx = (sim.boxsize.x, sim.boxsize.y, sim.boxsize.z)
        for ri in range(sim.N_root):
            cptr = root[ri]
            if not cptr:
                continue
            i_, j_, k_ = ri % nx, (ri // nx) % ny, ri // (nx * ny)
            want = (-bx[0] / 2 + rs * (0.5 + i_), -bx[1] / 2 + rs * (0.5 + j_), -bx[2] / 2 + rs * (0.5 + k_))
            c = cptr.contents
            if c.w != rs or max(abs(a - b) for a, b in zip((c.x, c.y, c.z), want)) > 4 * EPS * max(bx):
                out.append(('tree:root-cell-geometry', '%s: root %d centre %r width %r, grid says %r width %r' % (desc, ri, (c.x, c.y, c.z), c.w, want, rs)))
            stack = [(cptr, 0)]
            while stack:
                cp, depth = stack.pop()
                c = cp.contents
                counters['cells_visited'] += 1
                counters['max_depth'] = max(counters['max_depth'], depth)
                addr = ctypes.addressof(c)
                kids = [(o, c.oct[o]) for o in range(8) if c.oct[o]]
                if c.pt >= 0:
                    counters['leaves_visited'] += 1
                    if kids:
                        out.append(('tree:leaf-with-children', '%s: leaf for particle %d has %d children' % (desc, c.pt, len(kids))))
                    if c.pt >= N:
                        out.append(('tree:leaf-index-out-of-range', '%s: leaf pt=%d with N=%d' % (desc, c.pt, N)))
                        continue
                    if c.pt in seen:
                        out.append(('tree:particle-in-two-leaves', '%s: particle %d' % (desc, c.pt)))
                    seen[c.pt] = addr
                    p = ps[c.pt]
                    if p.y != p.y:
                        out.append(('tree:flagged-particle-still-in-tree', '%s: particle %d is flagged for removal but sits in a leaf right after the tree update' % (desc, c.pt)))
                        continue
                    # cells narrower than the floating point spacing of their own centre have no meaningful boundary: allow 4 ulp of the centre
                    if abs(p.x - c.x) > c.w / 2 + 8 * EPS * abs(c.x) or abs(p.y - c.y) > c.w / 2 + 8 * EPS * abs(c.y) or abs(p.z - c.z) > c.w / 2 + 8 * EPS * abs(c.z):
                        out.append(('tree:particle-outside-its-leaf', '%s: particle %d at %r, leaf centre %r width %r (depth %d)' % (desc, c.pt, (p.x, p.y, p.z), (c.x, c.y, c.z), c.w, depth)))
                    if (p.c or 0) != addr:
                        out.append(('tree:particle-back-pointer', '%s: particle %d .c=%#x, leaf at %#x' % (desc, c.pt, p.c or 0, addr)))
                    if check_mass:
                        counters['mass_checks'] += 1
                        if c.m != p.m or c.mx != p.x or c.my != p.y or c.mz != p.z:
                            out.append(('tree:leaf-mass-data', '%s: leaf of particle %d has m=%r com=%r, particle m=%r at %r' % (desc, c.pt, c.m, (c.mx, c.my, c.mz), p.m, (p.x, p.y, p.z))))
                else:
                    for o, kp in kids:
                        k = kp.contents
                        wantc = (c.x + c.w / 4 * (1 if (o >> 0) % 2 == 0 else -1), c.y + c.w / 4 * (1 if (o >> 1) % 2 == 0 else -1), c.z + c.w / 4 * (1 if (o >> 2) % 2 == 0 else -1))
                        if k.w != c.w / 2 or (k.x, k.y, k.z) != wantc:
                            out.append(('tree:child-cell-geometry', '%s: octant %d centre %r width %r, parent centre %r width %r' % (desc, o, (k.x, k.y, k.z), k.w, (c.x, c.y, c.z), c.w)))
                        stack.append((kp, depth + 1))
                    # count leaves below
                    cnt = 0
                    st2 = [kp for _, kp in kids]
                    msum, cx, cy, cz = 0.0, 0.0, 0.0, 0.0
                    while st2:
                        q = st2.pop().contents
                        if q.pt >= 0:
                            cnt += 1
                            if q.pt < N:
                                pp = ps[q.pt]
                                msum += pp.m
                                cx += pp.m * pp.x
                                cy += pp.m * pp.y
                                cz += pp.m * pp.z
                        else:
                            st2 += [q.oct[o] for o in range(8) if q.oct[o]]
                    if c.pt != -cnt:
                        out.append(('tree:interior-count', '%s: interior cell has pt=%d but %d leaves below (depth %d)' % (desc, c.pt, cnt, depth)))
                    if cnt < 2:
                        out.append(('tree:not-derefined', '%s: interior cell with %d leaves below (depth %d)' % (desc, cnt, depth)))
                    if check_mass:
                        counters['mass_checks'] += 1
                        if abs(c.m - msum) > 64 * EPS * max(msum, 1e-300) * max(cnt, 1):
                            out.append(('tree:cell-mass', '%s: cell m=%r, sum over contents %r (%d leaves)' % (desc, c.m, msum, cnt)))
                        elif msum > 0:
                            for nm, got, wantv in (('x', c.mx, cx / msum), ('y', c.my, cy / msum), ('z', c.mz, cz / msum)):
                                if abs(got - wantv) > 256 * EPS * cnt * (abs(c.x) + c.w):
                                    out.append(('tree:cell-centre-of-mass', '%s: cell com %s=%r, contents give %r' % (desc, nm, got, wantv)))
        live = [i for i in range(N) if ps[i].y == ps[i].y]
        missing = [i for i in live if i not in seen]
        if missing:
            out.append(('tree:particle-in-no-leaf', '%s: particles %r (of N=%d) are in no leaf' % (desc, missing[:8], N)))
        return out

    for _ in range(case['n']):
        boundary = r.choice(['periodic', 'periodic', 'shear', 'open'])
        use_tree_grav = r.random() < 0.45
        use_tree_col = r.random() < 0.5
        resolver = r.choice(['none', 'merge', 'hardsphere', 'record'])
        if not use_tree_col:
            colmode = r.choice(['none', 'none', 'direct'])
        else:
            colmode = r.choice(['tree', 'linetree'])
        nroot = r.choice([(1, 1, 1), (2, 1, 1), (2, 2, 1), (3, 2, 2), (1, 3, 1), (3, 3, 2), (1, 1, 2), (2, 1, 3), (1, 2, 3), (1, 1, 3)])      # every ordering of the three counts, incl. more boxes in z than in y or x
        rs = 10 ** r.uniform(-1, 2)
        sim = rebound.Simulation()
        sim.rand_seed = r.randrange(1, 2 ** 31)
        sim.configure_box(rs, *nroot)
        sim.boundary = boundary
        bx = [rs * q for q in nroot]
        free_flight = not use_tree_grav and r.random() < 0.7        # no forces: the unwrapped end position of a step is known exactly
        sim.G = 0.0 if free_flight else 1e-6
        sim.gravity = 'tree' if use_tree_grav else ('none' if free_flight else 'basic')
        sim.collision = colmode
        if boundary == 'shear':
            sim.ri_sei.OMEGA = r.choice([1.0, 0.1, 3.0])
            sim.integrator = 'leapfrog' if free_flight else r.choice(['sei', 'leapfrog'])
        else:
            sim.integrator = 'leapfrog'
        ng = r.choice([0, 1, 2])
        if boundary != 'open':
            sim.N_ghost_x = ng
            sim.N_ghost_y = ng
            sim.N_ghost_z = ng if r.random() < 0.5 else 0
        sim.opening_angle2 = r.choice([0.25, 1.0, 0.0])
        if boundary == 'open' and r.random() < 0.5:
            sim.track_energy_offset = 1          # removals then keep the array sorted (another removal path of the open boundary)
            counters['open_runs_tracking_energy_offset'] = counters.get('open_runs_tracking_energy_offset', 0) + 1
        sim.softening = 0.01 * rs
        N0 = r.choice([1, 2, 5, 12, 30, 60])
        sim.dt = r.choice([1e-3, 1e-2, 0.1]) * r.choice([1, 1, -1])
        vfast = r.choice([0.1, 1.0, 3.7, 12.0]) * rs / abs(sim.dt)          # boxes per step
        nexthash = [1000]

        def newp():
            v = vfast * r.choice([0.0, 0.01, 0.3, 1.0])
            h = nexthash[0]
            nexthash[0] += 1
            return dict(m=r.choice([1.0, 1e-3, 0.0]) if not use_tree_col else r.choice([1.0, 1e-3]), x=r.uniform(-0.4999, 0.4999) * bx[0], y=r.uniform(-0.4999, 0.4999) * bx[1], z=r.uniform(-0.4999, 0.4999) * bx[2],
                        vx=r.uniform(-1, 1) * v, vy=r.uniform(-1, 1) * v, vz=r.uniform(-1, 1) * v * r.choice([0, 1]), r=rs * r.choice([0.0, 0.01, 0.05]), hash=ctypes.c_uint32(h))
        for _i in range(N0):
            sim.add(**newp())
        if (use_tree_grav or use_tree_col) and r.random() < 0.3 and sim.N > 0:
            # a neighbour a few ulp away from an existing particle: no cell can separate them; the tree must say so, not recurse forever
            q = sim.particles[r.randrange(sim.N)]
            kw = newp()
            kw.update(x=math.nextafter(q.x, r.choice([-1e300, 1e300])), y=q.y if r.random() < 0.7 else math.nextafter(q.y, 1e300), z=q.z)
            counters['ulp_neighbours_added'] = counters.get('ulp_neighbours_added', 0) + 1
            try:
                sim.add(**kw)
            except RuntimeError:
                counters['ulp_neighbours_refused'] = counters.get('ulp_neighbours_refused', 0) + 1
        log = []

        def cb(sp, c):
            s = sp.contents
            log.append((c.p1, c.p2))
            if resolver == 'merge':
                clib.reb_collision_resolve_merge.restype = ctypes.c_int
                return clib.reb_collision_resolve_merge(sp, c)
            if resolver == 'hardsphere':
                clib.reb_collision_resolve_hardsphere.restype = ctypes.c_int
                return clib.reb_collision_resolve_hardsphere(sp, c)
            return 0
        if colmode != 'none':
            if resolver == 'none':
                resolver = 'record'
            clib.reb_collision_resolve_merge.argtypes = [ctypes.c_void_p, rebound.simulation.CollisionS]
            clib.reb_collision_resolve_hardsphere.argtypes = [ctypes.c_void_p, rebound.simulation.CollisionS]
            sim.collision_resolve = cb
        desc0 = 'boundary %s roots %r rs %.3g grav %s col %s/%s integ %s dt %r' % (boundary, nroot, rs, sim.gravity, colmode, resolver, sim.integrator, sim.dt)
        force_problems = []
        stepno = [0]

        def forces(sp):
            s = sp.contents
            if s._tree_root and (use_tree_grav or use_tree_col):
                counters['tree_walks_at_force_time'] += 1
                force_problems.extend(walk(s, 'force', '%s step %d (force time)' % (desc0, stepno[0]), check_mass=use_tree_grav))
        if use_tree_grav or use_tree_col:
            sim.additional_forces = forces
        nsteps = r.choice([30, 60, 150]) if case['tier'] == 'quick' else r.choice([60, 150, 300])
        for step in range(nsteps):
            stepno[0] = step
            # user edits between steps
            u = r.random()
            if u < 0.04 and sim.N > 1:
                try:
                    sim.remove(index=r.randrange(sim.N), keep_sorted=False)
                    counters['user_removals'] += 1
                except Exception:
                    pass
            elif u < 0.08:
                try:
                    sim.add(**newp())
                    counters['user_adds'] += 1
                except Exception:
                    pass
            pre = [(p.x, p.y, p.z, p.vx, p.vy, p.vz, p.hash.value, p.m) for p in sim.particles if p.y == p.y]
            t_pre = sim.t
            del log[:]
            try:
                sim.step()
            except Exception as e:
                counters['step_errors'] = counters.get('step_errors', 0) + 1
                break
            counters['steps'] += 1
            post = [(p.x, p.y, p.z, p.vx, p.vy, p.vz, p.hash.value, p.m) for p in sim.particles]
            postlive = [p for p in post if p[1] == p[1]]
            desc = '%s step %d' % (desc0, step)
            for mech, msg in force_problems:
                add(mech, msg)
            del force_problems[:]
            # ---- boundary monitor
            if boundary in ('periodic', 'shear'):
                for p in postlive:
                    for k in range(3):
                        if gt(abs(p[k]), bx[k] / 2):
                            add('boundary:particle-outside-box-after-step:%s' % boundary, '%s: particle %d at %r, box %r' % (desc, p[6], p[:3], bx))
                            break
                if not (resolver == 'merge' and log):
                    if sorted(p[6] for p in postlive) != sorted(p[6] for p in pre):
                        add('boundary:particle-set-changed:%s' % boundary, '%s: identities before %r after %r' % (desc, sorted(p[6] for p in pre)[:10], sorted(p[6] for p in postlive)[:10]))
            if free_flight and not log:
                dt = sim.dt
                byh = dict((p[6], p) for p in postlive)
                for p in pre:
                    # leapfrog without forces: two half drifts
                    u_ = [p[k] + 0.5 * dt * p[3 + k] for k in range(3)]
                    u_ = [u_[k] + 0.5 * dt * p[3 + k] for k in range(3)]
                    q = byh.get(p[6])
                    if boundary == 'open':
                        outside = [abs(u_[k]) > bx[k] / 2 for k in range(3)]
                        edge = any(abs(abs(u_[k]) - bx[k] / 2) <= 8 * EPS * bx[k] for k in range(3))
                        if edge:
                            continue
                        if any(outside) and q is not None:
                            add('boundary:open:particle-outside-not-removed', '%s: particle %d ends at %r outside box %r but is still present' % (desc, p[6], u_, bx))
                        if not any(outside) and q is None:
                            add('boundary:open:particle-inside-removed', '%s: particle %d ends at %r inside box %r but was removed' % (desc, p[6], u_, bx))
                        if any(outside):
                            counters['open_removals'] += 1
                        continue
                    if q is None:
                        continue
                    ks = []
                    bad = False
                    for k in range(3):
                        qk = (u_[k] - q[k]) / bx[k]
                        kk = round(qk)
                        ks.append(kk)
                        tol = 64 * EPS * (abs(u_[k]) + bx[k]) / bx[k] * (abs(kk) + 1)
                        if boundary == 'shear' and k == 1:
                            continue
                        if gt(abs(qk - kk), tol):
                            add('boundary:coordinate-not-shifted-by-whole-boxes:%s' % boundary, '%s: particle %d axis %d: unwrapped %r, after step %r, box %r (%.6g boxes)' % (desc, p[6], k, u_[k], q[k], bx[k], qk))
                            bad = True
                    if any(ks):
                        counters['wraps'] += 1
                    if any(abs(kk) > 1 for kk in ks):
                        counters['multi_box_wraps'] += 1
                    if bad:
                        continue
                    if boundary == 'periodic':
                        if q[3:6] != p[3:6]:
                            add('boundary:velocity-changed:periodic', '%s: particle %d velocity %r -> %r' % (desc, p[6], p[3:6], q[3:6]))
                    else:
                        kx = ks[0]          # number of radial box crossings (unwrapped - wrapped)
                        OM = sim.ri_sei.OMEGA
                        if kx:
                            counters['shear_radial_wraps'] += 1
                        wantvy = p[4] + kx * 1.5 * OM * bx[0]
                        if q[3] != p[3] or q[5] != p[5] or gt(abs(q[4] - wantvy), 64 * EPS * (abs(p[4]) + abs(kx) * 1.5 * OM * bx[0]) * (abs(kx) + 1)):
                            add('boundary:shear:velocity-offset', '%s: particle %d crossed %d radial boxes: velocity %r -> %r, expected vy %r' % (desc, p[6], kx, p[3:6], q[3:6], wantvy))
                        # y: unwrapped + kx * (1.5 OMEGA Lx t) modulo Ly, t = time at the boundary check = end of step
                        sh = 1.5 * OM * bx[0] * sim.t
                        qy = (u_[1] + kx * sh - q[1]) / bx[1]
                        toly = 256 * EPS * (abs(u_[1]) + abs(kx * sh) + bx[1]) / bx[1] * (abs(kx) + abs(round(qy)) + 1)
                        if gt(abs(qy - round(qy)), toly):
                            add('boundary:shear:azimuthal-offset', '%s: particle %d crossed %d radial boxes at t=%r: unwrapped y %r, after step %r; (y + k*1.5*OMEGA*Lx*t - y_after)/Ly = %r' % (desc, p[6], kx, sim.t, u_[1], q[1], qy))
            # ---- tree monitor at step end
            if use_tree_col and sim._tree_root and not (log and resolver in ('merge',)):
                counters['tree_walks_at_step_end'] += 1
                for mech, msg in walk(sim, 'end', desc + ' (step end)', check_mass=False):
                    add(mech, msg)
            if log and resolver == 'merge':
                counters['merges_seen'] += 1
            if sim.N - sum(1 for p in post if p[1] != p[1]) < 1:
                break
            if viol:
                break
        cells.add(json.dumps([boundary, nroot, sim.gravity, colmode, resolver, sim.integrator, free_flight]))
    for v in viol:
        v['case_seed'] = case['seed']
    return dict(violations=viol, cells=[json.loads(c) for c in cells], counters=counters, sample=dict(seed=case['seed']))


def main(tier, seed):
    from vf import layout
    V = core.Verdict(PROPERTY, tier, seed)
    r = core.rng(PROPERTY, seed)
    D = layout.dwarf_layout('dbg', ['reb_treecell'])
    st = D['structs']['reb_treecell']
    flds = dict((f['fname'], f) for f in st['fields'])
    lay = dict(size=st['size'], offsets=dict((k, flds[k]['offset']) for k in ('x', 'y', 'z', 'w', 'm', 'mx', 'my', 'mz', 'oct', 'pt', 'remote')))
    nb = 192 if tier == 'quick' else 2400
    cases = {'rel': [], 'asan': []}
    for i in range(nb):
        cases['rel'].append(dict(seed=r.getrandbits(40), n=3, tier=tier, layout=lay))
    for i in range(max(8, nb // 8)):
        cases['asan'].append(dict(seed=r.getrandbits(40), n=2, tier=tier, layout=lay))
    from checks.c14_bookkeeping import crash_mech
    for variant, cs in cases.items():
        res = core.run_cases('checks.c15_tree_boundary', variant, cs, timeout_case=1200)
        for c, rr in zip(cs, res):
            V.absorb(c, rr, crash_mech=crash_mech)
    if 'max_depth' in V.counters:
        V.counters['max_depth'] = max((rr['counters'].get('max_depth', 0) for rr in [] ), default=V.counters['max_depth'])
    inc = []
    for k in ('steps', 'tree_walks_at_force_time', 'tree_walks_at_step_end', 'cells_visited', 'wraps', 'multi_box_wraps', 'shear_radial_wraps', 'open_removals', 'user_removals', 'user_adds', 'merges_seen', 'mass_checks'):
        if V.counters.get(k, 0) == 0:
            inc.append('monitor counter %s is zero' % k)
    return V.finish(
        rule="histories of 30-300 steps x {periodic, shear, open} x 6 root layouts x box sizes over 3 decades x speeds 0.1..12 boxes/step x tree gravity / tree collisions / neither x merge/hardsphere/record x user add/remove between steps; "
             "distinct = (boundary, root layout, gravity, collision mode, resolver, integrator, free flight)",
        assumptions=["struct reb_treecell layout taken from DWARF of a -g build of the same sources and compared with the ctypes mirror before any walk",
                     "the tree is inspected only where the code has just updated it (force callback with tree gravity; step end with tree collisions)"], floor=30, inconclusive_if=inc)


def replay(path):
    return 1
