"""C18 - the Python ctypes classes mirror the C structures and options exactly.

Finite space, fully enumerated.  C's truth comes from DWARF (gdb Python API on a -g build of the
working tree, vf/layout.py); Python's from ctypes introspection of the working tree's classes.

Static half: every mirrored (class, struct) pair is walked member by member in offset order: same
offset, same size, same kind (signed/unsigned int, float, data pointer, function pointer, struct,
array-of), same name after normalisation (underscores and case ignored, short alias table).
Dynamic half: every named option is set by name in Python, the bytes at the *C* offset are compared
with the C enumerator of the same meaning (or the address of the C symbol for function-valued options)
and the option must read back as the name that was set.
"""
import json, os, re, sys
from vf import core, layout, build as B

PROPERTY = "C18"

# python class path -> C struct
PAIRS = [
    ("rebound.simulation.Simulation", "reb_simulation"),
    ("rebound.particle.Particle", "reb_particle"),
    ("rebound.orbit.Orbit", "reb_orbit"),
    ("rebound.rotation.Rotation", "reb_rotation"),
    ("rebound.vectors.Vec3dBasic", "reb_vec3d"),
    ("rebound.vectors.Vec6d", "reb_vec6d"),
    ("rebound.variation.Variation", "reb_variational_configuration"),
    ("rebound.integrators.bs.ODE", "reb_ode"),
    ("rebound.simulation.CollisionS", "reb_collision"),
    ("rebound.hash.HashPointerPair", "reb_hash_pointer_pair"),
    ("rebound.simulationarchive.Simulationarchive", "reb_simulationarchive"),
    ("rebound.simulation.ServerData", "reb_server_data"),
    ("rebound.simulation.timeval", "timeval"),
    ("rebound.binary_field_descriptor.BinaryFieldDescriptor", "reb_binary_field_descriptor"),
    ("rebound.integrators.bs.IntegratorBS", "reb_integrator_bs"),
    ("rebound.integrators.eos.IntegratorEOS", "reb_integrator_eos"),
    ("rebound.integrators.ias15.IntegratorIAS15", "reb_integrator_ias15"),
    ("rebound.integrators.ias15.reb_dp7", "reb_dp7"),
    ("rebound.integrators.janus.IntegratorJanus", "reb_integrator_janus"),
    ("rebound.integrators.janus.ParticleInt", "reb_particle_int"),
    ("rebound.integrators.mercurius.IntegratorMercurius", "reb_integrator_mercurius"),
    ("rebound.integrators.saba.IntegratorSABA", "reb_integrator_saba"),
    ("rebound.integrators.sei.IntegratorSEI", "reb_integrator_sei"),
    ("rebound.integrators.trace.IntegratorTRACE", "reb_integrator_trace"),
    ("rebound.integrators.whfast.IntegratorWHFast", "reb_integrator_whfast"),
    ("rebound.integrators.whfast512.IntegratorWHFast512", "reb_integrator_whfast512"),
]
# deliberate renames: (struct, C member) -> python field name (normalised)
ALIASES = {
    ("reb_simulation", "gravityignoreterms"): "gravityignore",
    ("reb_simulation", "maxradius0"): "maxradius0", ("reb_simulation", "maxradius1"): "maxradius1",
    ("reb_simulation", "displaysettings"): "displayview",         # private python name of the same pointer
    ("reb_integrator_ias15", "nallocatedmap"): "mapallocatedn",   # private python name, same unsigned counter
}
# Python mirrors that deliberately declare only a prefix of the C struct (never allocated from Python, only reached through a pointer)
PREFIX_OK = {"reb_server_data"}
FN_SYMS = ['reb_collision_resolve_merge', 'reb_collision_resolve_hardsphere', 'reb_collision_resolve_halt',
           'reb_integrator_mercurius_L_mercury', 'reb_integrator_mercurius_L_infinity', 'reb_integrator_mercurius_L_C4',
           'reb_integrator_mercurius_L_C5', 'reb_integrator_trace_switch_default', 'reb_integrator_trace_switch_peri_default',
           'reb_integrator_trace_switch_peri_none']


def norm(s):
    return re.sub(r'[^a-z0-9]', '', s.lower())


# ------------------------------------------------------------------ worker side
def py_desc(t):
    import ctypes
    d = dict(size=ctypes.sizeof(t))
    if issubclass(t, ctypes.Structure):
        d['kind'] = 'struct'
        d['pyname'] = t.__module__ + '.' + t.__name__
    elif issubclass(t, ctypes.Array):
        d['kind'] = 'array'
        d['count'] = t._length_
        d['elem'] = py_desc(t._type_)
    elif issubclass(t, ctypes._Pointer):
        d['kind'] = 'ptr'
        tt = t._type_
        d['target'] = getattr(tt, '__name__', str(tt))
        d['target_struct'] = (tt.__module__ + '.' + tt.__name__) if isinstance(tt, type) and issubclass(tt, ctypes.Structure) else None
    elif issubclass(t, ctypes._CFuncPtr):
        d['kind'] = 'funcptr'
    elif issubclass(t, ctypes._SimpleCData):
        c = t._type_
        if c in 'bhilq':
            d['kind'], d['signed'] = 'int', True
        elif c in 'BHILQ?':
            d['kind'], d['signed'] = 'int', False
        elif c == 'c':
            d['kind'], d['signed'] = 'int', True
        elif c in 'df':
            d['kind'] = 'float'
        elif c in 'Pz':
            d['kind'] = 'voidptr'
        else:
            d['kind'] = 'other:' + c
    else:
        d['kind'] = 'unknown'
    return d


def static_compare(pyname, cname, cstruct, viol, counters, pairs_map):
    import importlib, ctypes
    mod, cls = pyname.rsplit('.', 1)
    klass = getattr(importlib.import_module(mod), cls)
    pyfields = []
    for fname, ftype, *rest in klass._fields_:
        desc = getattr(klass, fname)
        # a class attribute of the same name that is not the ctypes field descriptor shadows the field (or vice versa)
        pd = py_desc(ftype)
        pd.update(fname=fname, offset=desc.offset if hasattr(desc, 'offset') else None)
        pyfields.append(pd)
    cfields = cstruct['fields']
    coff = dict((c['offset'], c) for c in cfields)
    expanded = []
    for p in pyfields:
        c = coff.get(p['offset'])
        if p['kind'] == 'array' and c is not None and c['kind'] != 'array' and p['elem']['kind'] in ('int', 'float'):
            for j in range(p['count']):
                e = dict(p['elem'])
                e.update(fname='%s%d' % (p['fname'], j), offset=p['offset'] + j * p['elem']['size'])
                expanded.append(e)
        else:
            expanded.append(p)
    pyfields = expanded
    if cname in PREFIX_OK:
        cfields = cfields[:len(pyfields)]
    elif ctypes.sizeof(klass) != cstruct['size']:
        # a Python mirror may legitimately be a *prefix* of the C struct only if declared so; none are
        viol.append(dict(mech='layout:struct-size:%s' % cname, msg='sizeof(%s)=%d but sizeof(struct %s)=%d' % (pyname, ctypes.sizeof(klass), cname, cstruct['size'])))
    n = max(len(pyfields), len(cfields))
    for i in range(n):
        if i >= len(pyfields):
            viol.append(dict(mech='layout:missing-python-field:%s.%s' % (cname, cfields[i]['fname']), msg='C member %s.%s @%d has no Python field' % (cname, cfields[i]['fname'], cfields[i]['offset'])))
            continue
        if i >= len(cfields):
            viol.append(dict(mech='layout:extra-python-field:%s.%s' % (cname, pyfields[i]['fname']), msg='Python field %s.%s has no C member' % (pyname, pyfields[i]['fname'])))
            continue
        p, c = pyfields[i], cfields[i]
        counters['members_compared'] += 1
        where = '%s.%s (py %s)' % (cname, c['fname'], p['fname'])
        if p['offset'] != c['offset']:
            viol.append(dict(mech='layout:offset:%s.%s' % (cname, c['fname']), msg='%s: C offset %d, Python offset %r' % (where, c['offset'], p['offset'])))
            break   # everything after is shifted; one report is enough
        if p['size'] != c['size']:
            viol.append(dict(mech='layout:size:%s.%s' % (cname, c['fname']), msg='%s: C size %d, Python size %d' % (where, c['size'], p['size'])))
        # names
        pn, cn = norm(p['fname']), norm(c['fname'])
        if pn != cn and ALIASES.get((cname, cn)) != pn:
            # is it a crossed name (the python name is the name of another C member)?
            others = [norm(f['fname']) for f in cfields]
            if pn in others:
                viol.append(dict(mech='layout:crossed-name:%s.%s' % (cname, c['fname']), msg='%s: Python field %r sits on C member %r' % (where, p['fname'], c['fname'])))
            elif not p['fname'].startswith('_'):
                viol.append(dict(mech='layout:name:%s.%s' % (cname, c['fname']), msg='%s: public Python field %r sits on C member %r' % (where, p['fname'], c['fname'])))
            else:
                counters['private_name_spelling_differs'] = counters.get('private_name_spelling_differs', 0) + 1  # private python spelling, not crossed: not user-visible
        # kinds
        ck, pk = c['kind'], p['kind']
        ok = True
        if ck == 'int':
            ok = pk == 'int'
            if ok and bool(p['signed']) != bool(c['signed']):
                viol.append(dict(mech='layout:signedness:%s.%s' % (cname, c['fname']), msg='%s: C %s, Python %s' % (where, 'signed' if c['signed'] else 'unsigned', 'signed' if p['signed'] else 'unsigned')))
        elif ck == 'enum':
            ok = pk == 'int'
        elif ck == 'float':
            ok = pk == 'float'
        elif ck == 'ptr':
            ok = pk in ('ptr', 'voidptr')
            if pk == 'ptr' and p.get('target_struct') and c.get('target_kind') == 'struct' and not p['fname'].startswith('_'):
                want = pairs_map.get(p['target_struct'])
                if want and 'struct ' + want != c['target']:
                    viol.append(dict(mech='layout:pointee:%s.%s' % (cname, c['fname']), msg='%s: C points to %s, Python to %s' % (where, c['target'], p['target_struct'])))
        elif ck == 'funcptr':
            ok = pk in ('funcptr', 'voidptr')
        elif ck in ('struct', 'union'):
            ok = pk == 'struct'
            if ok:
                want = pairs_map.get(p['pyname'])
                if want and 'struct ' + want != c.get('name'):
                    viol.append(dict(mech='layout:nested-struct:%s.%s' % (cname, c['fname']), msg='%s: C %s, Python %s' % (where, c.get('name'), p['pyname'])))
        elif ck == 'array':
            ok = pk == 'array'
            if ok:
                if p['count'] != c['count']:
                    viol.append(dict(mech='layout:array-count:%s.%s' % (cname, c['fname']), msg='%s: C [%d], Python [%d]' % (where, c['count'], p['count'])))
                ce, pe = c['elem'], p['elem']
                if ce['kind'] in ('int', 'float') and (pe['kind'] != ce['kind'] or pe['size'] != ce['size']):
                    viol.append(dict(mech='layout:array-elem:%s.%s' % (cname, c['fname']), msg='%s: elem kinds differ' % where))
            elif pk == 'struct' and p['size'] == c['size']:
                ok = True   # e.g. double[3] mirrored by a 3-double struct: same bytes
        if not ok:
            viol.append(dict(mech='layout:kind:%s.%s' % (cname, c['fname']), msg='%s: C kind %s, Python kind %s' % (where, ck, pk)))
    # shadowing: a property or method defined in the class body with the same name as a ctypes field is replaced by the field
    import inspect
    src = None
    try:
        src = inspect.getsource(klass)
    except Exception:
        pass
    if src:
        for p in pyfields:
            if re.search(r'^\s+def %s\(self' % re.escape(p['fname']), src, re.M):
                viol.append(dict(mech='layout:field-shadows-property:%s.%s' % (cname, p['fname']),
                                 msg='%s: class body defines a property/method %r AND a ctypes field of the same name; the field wins, the documented property is dead' % (pyname, p['fname'])))
    return len(pyfields)


def run_case(case):
    import ctypes, warnings
    warnings.simplefilter('ignore')
    import rebound
    from rebound import clibrebound as clib
    with open(case['dwarf']) as f:
        D = json.load(f)
    viol = []
    counters = dict(members_compared=0, structs_compared=0, options_set=0, function_options_set=0, unmapped_structures=0)
    pairs_map = dict(PAIRS)
    cells = []
    if case['part'] == 'static':
        # every ctypes.Structure subclass defined in the package must be in the table
        import pkgutil, importlib
        seen = set()
        for m in pkgutil.walk_packages(rebound.__path__, 'rebound.'):
            if '.tests' in m.name or m.name.endswith('widget') or m.name.endswith('plotting') or m.name.endswith('horizons'):
                continue
            try:
                mod = importlib.import_module(m.name)
            except Exception:
                continue
            for k, v in vars(mod).items():
                if isinstance(v, type) and issubclass(v, ctypes.Structure) and v.__module__ == m.name:
                    seen.add(v.__module__ + '.' + v.__name__)
        for s in sorted(seen):
            if s not in pairs_map:
                counters['unmapped_structures'] += 1
                viol.append(dict(mech='harness:unmapped-structure:' + s, msg='ctypes.Structure %s has no C counterpart in the check table' % s))
        for pyname, cname in PAIRS:
            cs = D['structs'].get(cname)
            if not cs or 'error' in cs:
                viol.append(dict(mech='harness:no-dwarf:' + cname, msg=str(cs)))
                continue
            static_compare(pyname, cname, cs, viol, counters, pairs_map)
            counters['structs_compared'] += 1
            cells.append(['struct', cname])
    else:
        simfields = dict((f['fname'], f) for f in D['structs']['reb_simulation']['fields'])

        def c_member(path):
            """offset of sim-><path> from DWARF"""
            off = 0
            fields = simfields
            f = None
            for part in path.split('.'):
                f = fields[part]
                off += f['offset']
                if f['kind'] in ('struct',):
                    fields = dict((g['fname'], g) for g in f['fields'])
            return off, f

        def read_c(sim, path):
            off, f = c_member(path)
            raw = ctypes.string_at(ctypes.addressof(sim) + off, f['size'])
            return int.from_bytes(raw, 'little', signed=False), f

        def enum_opt(family, path, pyname_to_set, setter, getter, names, prefix, extra_norm=None):
            off, f = c_member(path)
            enums = f.get('enumerators')
            if enums is None and family == 'eos':
                enums = D['enums']['REB_EOS_TYPE']
            cmap = {}
            for en, val in enums.items():
                cmap[norm(en[len(prefix):]) if en.startswith(prefix) else norm(en)] = (en, val)
            # every option is set on a fresh simulation AND after every other option of the same family (a setter that skips the write for
            # the zero-valued enumerator is invisible on a fresh simulation, whose C member is already 0)
            for name, prev in [(n_, None) for n_ in names] + [(n_, p_) for n_ in names for p_ in names if p_ != n_]:
                sim = rebound.Simulation()
                counters['options_set'] += 1
                if prev is not None:
                    counters['options_set_after_another_option'] = counters.get('options_set_after_another_option', 0) + 1
                    try:
                        setter(sim, prev)
                    except Exception:
                        continue
                try:
                    setter(sim, name)
                except Exception as e:
                    viol.append(dict(mech='option:set-by-name-fails:%s' % path, msg='%s = %r raised %s: %s' % (path, name, type(e).__name__, e)))
                    continue
                got, _ = read_c(sim, path)
                key = norm(name)
                if key not in cmap:
                    viol.append(dict(mech='option:no-c-enumerator:%s=%s' % (path, name), msg='no C enumerator matches python name %r (have %r)' % (name, sorted(cmap))))
                    continue
                en, val = cmap[key]
                after_ = '' if prev is None else ' (after %r)' % prev
                if got != (val & 0xffffffff):
                    viol.append(dict(mech='option:wrong-c-value:%s=%s%s' % (path, name, ':after-another-option' if prev else ''), msg='python %r%s wrote %d at the C offset; C enumerator %s = %d' % (name, after_, got, en, val)))
                back = getter(sim)
                if back != name:
                    viol.append(dict(mech='option:readback:%s=%s%s' % (path, name, ':after-another-option' if prev else ''), msg='set %r%s, read back %r' % (name, after_, back)))
                if prev is None:
                    cells.append(['opt', path, name])

        from rebound.simulation import INTEGRATORS, BOUNDARIES, GRAVITIES, COLLISIONS
        from rebound.integrators.whfast import WHFAST_KERNELS, WHFAST_COORDINATES
        from rebound.integrators.saba import SABA_TYPES
        from rebound.integrators.eos import EOS_TYPES
        from rebound.integrators.trace import TRACE_PERI_MODES
        enum_opt('sim', 'integrator', None, lambda s, n: setattr(s, 'integrator', n), lambda s: s.integrator, list(INTEGRATORS), 'REB_INTEGRATOR_')
        enum_opt('sim', 'boundary', None, lambda s, n: setattr(s, 'boundary', n), lambda s: s.boundary, list(BOUNDARIES), 'REB_BOUNDARY_')
        enum_opt('sim', 'gravity', None, lambda s, n: setattr(s, 'gravity', n), lambda s: s.gravity, list(GRAVITIES), 'REB_GRAVITY_')
        enum_opt('sim', 'collision', None, lambda s, n: setattr(s, 'collision', n), lambda s: s.collision, list(COLLISIONS), 'REB_COLLISION_')
        enum_opt('whfast', 'ri_whfast.coordinates', None, lambda s, n: setattr(s.ri_whfast, 'coordinates', n), lambda s: s.ri_whfast.coordinates, list(WHFAST_COORDINATES), 'REB_WHFAST_COORDINATES_')
        enum_opt('whfast', 'ri_whfast.kernel', None, lambda s, n: setattr(s.ri_whfast, 'kernel', n), lambda s: s.ri_whfast.kernel, list(WHFAST_KERNELS), 'REB_WHFAST_KERNEL_')
        enum_opt('saba', 'ri_saba.type', None, lambda s, n: setattr(s.ri_saba, 'type', n), lambda s: s.ri_saba.type, list(SABA_TYPES), 'REB_SABA_')
        enum_opt('eos', 'ri_eos.phi0', None, lambda s, n: setattr(s.ri_eos, 'phi0', n), lambda s: s.ri_eos.phi0, list(EOS_TYPES), 'REB_EOS_')
        enum_opt('eos', 'ri_eos.phi1', None, lambda s, n: setattr(s.ri_eos, 'phi1', n), lambda s: s.ri_eos.phi1, list(EOS_TYPES), 'REB_EOS_')
        enum_opt('trace', 'ri_trace.peri_mode', None, lambda s, n: setattr(s.ri_trace, 'peri_mode', n), lambda s: s.ri_trace.peri_mode, list(TRACE_PERI_MODES), 'REB_TRACE_PERI_')
        # integrator shortcuts: each must land on the documented (integrator, sub-option) values at the C offsets
        shortcuts = {"wh": ('REB_INTEGRATOR_WHFAST', 0, 'DEFAULT'), "whc": ('REB_INTEGRATOR_WHFAST', 17, 'DEFAULT'), "whckl": ('REB_INTEGRATOR_WHFAST', 17, 'LAZY'),
                     "whckm": ('REB_INTEGRATOR_WHFAST', 17, 'MODIFIEDKICK'), "whckc": ('REB_INTEGRATOR_WHFAST', 17, 'COMPOSITION')}
        ienum = simfields['integrator']['enumerators']
        kenum = dict((g['fname'], g) for g in simfields['ri_whfast']['fields'])['kernel']['enumerators']
        for sc, (ci, corr, kern), prev in [(k_, v_, None) for k_, v_ in shortcuts.items()] + [(k_, v_, p_) for k_, v_ in shortcuts.items() for p_ in shortcuts if p_ != k_]:
            sim = rebound.Simulation()
            counters['options_set'] += 1
            if prev is not None:
                sim.integrator = prev
            sim.integrator = sc
            gi, _ = read_c(sim, 'integrator')
            gc, _ = read_c(sim, 'ri_whfast.corrector')
            gk, _ = read_c(sim, 'ri_whfast.kernel')
            if (gi, gc, gk) != (ienum[ci], corr, kenum['REB_WHFAST_KERNEL_' + kern]):
                viol.append(dict(mech='option:shortcut:%s%s' % (sc, ':after-another-shortcut' if prev else ''), msg='integrator=%r%s wrote (integrator,corrector,kernel)=(%d,%d,%d)' % (sc, (' after %r' % prev) if prev else '', gi, gc, gk)))
            if prev is None:
                cells.append(['opt', 'shortcut', sc])
        senum = dict((g['fname'], g) for g in simfields['ri_saba']['fields'])['type']['enumerators']
        for en, val in senum.items():
            label = en[len('REB_SABA_'):]
            # documented spellings: SABA4, SABACL4, SABACM4, SABA(10,6,4), SABAH(8,4,4)
            m = re.match(r'^(CM|CL|H)?_?([0-9_]+)$', label)
            pre, nums = m.group(1) or '', m.group(2).split('_')
            spelled = 'SABA' + pre + (nums[0] if len(nums) == 1 else '(' + ','.join(nums) + ')')
            sim = rebound.Simulation()
            counters['options_set'] += 1
            try:
                sim.integrator = spelled
            except Exception as e:
                viol.append(dict(mech='option:set-by-name-fails:integrator=%s' % spelled, msg=str(e)))
                continue
            gi, _ = read_c(sim, 'integrator')
            gt, _ = read_c(sim, 'ri_saba.type')
            if gi != ienum['REB_INTEGRATOR_SABA'] or gt != val:
                viol.append(dict(mech='option:shortcut:%s' % spelled, msg='integrator=%r wrote integrator=%d type=%#x, want %d %#x' % (spelled, gi, gt, ienum['REB_INTEGRATOR_SABA'], val)))
            cells.append(['opt', 'shortcut', spelled])
        # function-valued options
        def fn_opt(path, name, sym, setter):
            sim = rebound.Simulation()
            counters['function_options_set'] += 1
            try:
                setter(sim, name)
            except Exception as e:
                viol.append(dict(mech='option:set-by-name-fails:%s' % path, msg='%s = %r raised %s: %s' % (path, name, type(e).__name__, e)))
                return
            got, _ = read_c(sim, path)
            want = ctypes.cast(getattr(clib, sym), ctypes.c_void_p).value
            if got != want:
                viol.append(dict(mech='option:wrong-c-function:%s=%s' % (path, name), msg='%s=%r stored %#x at the C offset, &%s=%#x' % (path, name, got, sym, want)))
            cells.append(['opt', path, name])
        for n in ('merge', 'hardsphere', 'halt'):
            fn_opt('collision_resolve', n, 'reb_collision_resolve_' + n, lambda s, v: setattr(s, 'collision_resolve', v))
        for n in ('mercury', 'infinity', 'C4', 'C5'):
            fn_opt('ri_mercurius.L', n, 'reb_integrator_mercurius_L_' + n, lambda s, v: setattr(s.ri_mercurius, 'L', v))
        fn_opt('ri_trace.S', 'default', 'reb_integrator_trace_switch_default', lambda s, v: setattr(s.ri_trace, 'S', v))
        fn_opt('ri_trace.S_peri', 'default', 'reb_integrator_trace_switch_peri_default', lambda s, v: setattr(s.ri_trace, 'S_peri', v))
        fn_opt('ri_trace.S_peri', 'none', 'reb_integrator_trace_switch_peri_none', lambda s, v: setattr(s.ri_trace, 'S_peri', v))
        # scalar options documented in docstrings: set in python, read at C offset, bitwise
        import struct as _st
        scal = [('ri_ias15.adaptive_mode', 3, 'I'), ('ri_ias15.epsilon', 1.25e-7, 'd'), ('ri_ias15.min_dt', 0.015625, 'd'), ('ri_whfast.corrector', 11, 'I'),
                ('ri_whfast.corrector2', 1, 'I'), ('ri_whfast.safe_mode', 0, 'I'), ('ri_whfast.keep_unsynchronized', 1, 'I'),
                ('ri_saba.safe_mode', 0, 'I'), ('ri_saba.keep_unsynchronized', 1, 'I'), ('ri_eos.n', 7, 'I'), ('ri_eos.safe_mode', 0, 'I'),
                ('ri_mercurius.r_crit_hill', 4.5, 'd'), ('ri_mercurius.safe_mode', 0, 'I'), ('ri_trace.r_crit_hill', 2.75, 'd'),
                ('ri_trace.peri_crit_eta', 0.5, 'd'), ('ri_bs.eps_abs', 1.5e-9, 'd'), ('ri_bs.eps_rel', 2.5e-9, 'd'), ('ri_bs.min_dt', 0.25, 'd'),
                ('ri_bs.max_dt', 8.0, 'd'), ('ri_janus.order', 8, 'I'), ('ri_janus.scale_pos', 1e-10, 'd'), ('ri_janus.scale_vel', 1e-12, 'd'),
                ('ri_sei.OMEGA', 1.5, 'd'), ('ri_sei.OMEGAZ', 2.5, 'd'), ('ri_whfast512.gr_potential', 1, 'I'), ('ri_whfast512.N_systems', 2, 'I'),
                ('ri_whfast512.keep_unsynchronized', 1, 'I'),
                ('G', 6.5, 'd'), ('softening', 0.125, 'd'), ('dt', 0.0625, 'd'), ('t', 3.5, 'd'), ('N_active', 3, 'i'), ('testparticle_type', 1, 'i'),
                ('opening_angle2', 0.75, 'd'), ('exit_max_distance', 99.5, 'd'), ('exit_min_distance', 0.5, 'd'), ('usleep', 7.0, 'd'),
                ('track_energy_offset', 1, 'i'), ('energy_offset', 0.375, 'd'), ('collision_resolve_keep_sorted', 1, 'i'),
                ('minimum_collision_velocity', 0.625, 'd'), ('rand_seed', 12345, 'I'), ('exact_finish_time', 0, 'i'),
                ('force_is_velocity_dependent', 1, 'I'), ('N_ghost_x', 2, 'i'), ('N_ghost_y', 3, 'i'), ('N_ghost_z', 4, 'i')]
        for path, val, fmt in scal:
            sim = rebound.Simulation()
            counters['options_set'] += 1
            obj = sim
            parts = path.split('.')
            for q in parts[:-1]:
                obj = getattr(obj, q)
            try:
                setattr(obj, parts[-1], val)
            except Exception as e:
                viol.append(dict(mech='option:set-fails:%s' % path, msg=str(e)))
                continue
            got, f = read_c(sim, path)
            want = int.from_bytes(_st.pack('<' + fmt, val), 'little')
            if got != want:
                viol.append(dict(mech='option:scalar-at-wrong-bytes:%s' % path, msg='python set %s=%r; bytes at C offset read %#x, want %#x' % (path, val, got, want)))
            if getattr(obj, parts[-1]) != val:
                viol.append(dict(mech='option:scalar-readback:%s' % path, msg='set %r read back %r' % (val, getattr(obj, parts[-1]))))
            cells.append(['opt', path])
    return dict(violations=viol, cells=cells, counters=counters,
                sample=dict(part=case['part'], variant=case['variant'], example_cells=cells[:5]))


# ------------------------------------------------------------------ parent
def main(tier, seed):
    V = core.Verdict(PROPERTY, tier, seed)
    combos = [('dbg', 'rel')] if tier == 'quick' else [('dbg', 'rel'), ('dbg512', 'avx512')]
    import tempfile
    td = tempfile.mkdtemp(prefix='c18-')
    for dv, pv in combos:
        D = layout.dwarf_layout(dv, [c for _, c in PAIRS], ['REB_EOS_TYPE'], FN_SYMS)
        p = os.path.join(td, dv + '.json')
        with open(p, 'w') as f:
            json.dump(D, f)
        cases = [dict(part='static', dwarf=p, variant=pv), dict(part='dynamic', dwarf=p, variant=pv)]
        res = core.run_cases('checks.c18_mirror', pv, cases, timeout_case=300)
        for c, r in zip(cases, res):
            V.absorb(c, r)
    import shutil
    shutil.rmtree(td, ignore_errors=True)
    inc = []
    if V.counters.get('members_compared', 0) < 300:
        inc.append('fewer than 300 struct members compared (%d)' % V.counters.get('members_compared', 0))
    if V.counters.get('options_set', 0) < 100:
        inc.append('fewer than 100 named options exercised')
    return V.finish(
        rule="exhaustive: every member of every mirrored structure (DWARF vs ctypes: offset, size, kind, signedness, normalised name), "
             "and every named option value (set by name in Python, bytes read at the C offset compared with the C enumerator / C symbol address, read back). "
             "distinct = (struct) and (option path, value) cells actually compared.",
        assumptions=["gdb's DWARF reader; the -g -O0 build has the same struct layout as the -O3 build (same compiler, same -D flags)"],
        floor=100, exhaustive=True, inconclusive_if=inc)


def replay(path):
    return main('quick', 0)
