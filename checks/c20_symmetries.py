"""C20 - changes of units and of reference frame are exact symmetries.

 1. units, EXHAUSTIVE over every (length, time, mass) key of rebound/units.py, every ordering/capitalisation sampled: sim.G against an
    independent SI table kept here (IAU au, Julian year, CODATA G, DE-series GM values; 2e-4 relative), alias keys bitwise equal,
    conversion chains A->B->C == A->C and A->B->A to rounding, and the period of one physical orbit (1 au around 1 Msun) in
    seconds equal across all triples to 1e-12.
 2. rotations: the constructors the property names (identity, angle_axis, from_to, to_new_axes, orbit; slerp is visualisation-grade by its
   own source comment and not part of the property) over random and degenerate inputs
    (parallel, exactly antiparallel on and off the axes, nearly antiparallel, non-normalised): unit quaternion, length preserved,
    inverse, composition, from_to(a,b) a^ = b^, to_new_axes maps the new axes onto z,x, orbit<->orbital angles, and sim.rotate(q)
    preserves pair distances, energy and |L| and rotates L by q.
 3. frames and linear maps: move_to_com (COM at rest at the origin, separations bitwise-level unchanged, first-order variational
    particles transformed as the derivative of the shift), move_to_hel, imul/iadd/isub and the Python operators act as the
    documented linear maps (bitwise), iadd with different N is rejected and changes nothing.
"""
import json, math, random, itertools
from vf import core
from vf.num import gt, nmax as max, nmin as min

PROPERTY = "C20"
EPS = 2.0 ** -52

# independent SI table (not copied from rebound/units.py)
SI_LEN = {'m': 1.0, 'cm': 1e-2, 'km': 1e3, 'au': 149597870700.0, 'aus': 149597870700.0, 'pc': 648000.0 / math.pi * 149597870700.0, 'parsec': 648000.0 / math.pi * 149597870700.0}
JY = 365.25 * 86400.0
SI_TIME = {'s': 1.0, 'hr': 3600.0, 'day': 86400.0, 'days': 86400.0, 'd': 86400.0, 'yr': JY, 'year': JY, 'years': JY, 'yrs': JY, 'jyr': JY, 'sidereal_yr': 365.256363004 * 86400.0,
           'yr2pi': JY / (2 * math.pi) * 1.0000000, 'kyr': JY * 1e3, 'myr': JY * 1e6, 'gyr': JY * 1e9}
G_CODATA = 6.67430e-11
# GM in m^3/s^2 (planet barycentre-free values, DE-series, rounded): only the product G*M is physical
GM = {'msun': 1.32712440018e20, 'mmercury': 2.2032e13, 'mvenus': 3.24859e14, 'mearth': 3.986004418e14, 'mmars': 4.282837e13, 'mjupiter': 1.26686534e17, 'msaturn': 3.7931187e16,
      'muranus': 5.793951e15, 'mneptune': 6.8351e15, 'mpluto': 8.6961e11}      # planet-only GM (not the satellite systems), DE-series
for alias in ('solarmass', 'sunmass', 'msolar'):
    GM[alias] = GM['msun']
ALIASES = [('day', 'days', 'd'), ('yr', 'year', 'years', 'yrs', 'jyr'), ('au', 'aus'), ('pc', 'parsec'), ('g', 'gram'), ('msun', 'solarmass', 'sunmass', 'msolar')]


def run_case(case):
    import ctypes, warnings
    from ctypes import c_double, byref
    warnings.simplefilter('ignore')
    import numpy as np
    import rebound
    from rebound import clibrebound as clib, units as U
    from rebound.vectors import Vec3d
    r = random.Random(case['seed'])
    viol = []
    counters = dict(unit_triples=0, conversions=0, rotations=0, degenerate_rotations=0, sim_rotations=0, frame_shifts=0, variational_shifts=0, linear_maps=0)
    cells = set()

    def add(mech, msg):
        if len(viol) < 60:
            viol.append(dict(mech=mech, msg=msg))
    kind = case['kind']
    if kind == 'units':
        Ls, Ts, Ms = list(U.lengths_SI), list(U.times_SI), list(U.masses_SI)
        periods = []
        Gs = {}
        for l in Ls:
            for t in Ts:
                for m in Ms:
                    counters['unit_triples'] += 1
                    order = r.choice(list(itertools.permutations([l, t, m])))
                    order = tuple(q.upper() if r.random() < 0.3 else q for q in order)
                    sim = rebound.Simulation()
                    try:
                        sim.units = order
                    except Exception as ex:
                        add('units:triple-rejected', '%r: %s' % (order, ex))
                        continue
                    G = sim.G
                    Gs[(l, t, m)] = G
                    # independent expectation
                    if l in SI_LEN and t in SI_TIME and (m in GM or m in ('kg', 'g', 'gram')):
                        if t == 'yr2pi':
                            pass        # defined by G(au, yr2pi, msun) = 1: checked below
                        else:
                            if m in GM:
                                want = GM[m] * SI_TIME[t] ** 2 / SI_LEN[l] ** 3
                            else:
                                want = G_CODATA * {'kg': 1.0, 'g': 1e-3, 'gram': 1e-3}[m] * SI_TIME[t] ** 2 / SI_LEN[l] ** 3
                            if not (abs(G / want - 1) < 2e-4):
                                add('units:G-inconsistent-with-SI:%s' % (m if m in GM else t if abs(SI_TIME[t] / U.times_SI[t] - 1) > 1e-6 else l), 'units %r: G=%r, independent SI value %r (ratio-1 = %.3e)' % ((l, t, m), G, want, G / want - 1))
                    elif m not in ('massist',):
                        add('harness:unit-not-in-independent-table', repr((l, t, m)))
                    # read back
                    back = sim.units
                    if (back.get('length'), back.get('time'), back.get('mass')) != (l, t, m):
                        add('units:readback', 'set %r read %r' % (order, back))
                    # period of a fixed physical orbit: a = 1 au, M = 1 msun (+ massless planet), converted back to seconds
                    a_code = U.convert_length(1.0, 'au', l)
                    M_code = U.convert_mass(1.0, 'msun', m)
                    P_code = 2 * math.pi * math.sqrt(a_code ** 3 / (G * M_code))
                    periods.append((P_code * U.times_SI[t], (l, t, m)))
                    cells.add(json.dumps(['units', l, t, m]))
        P0 = periods[0][0]
        for P, tri in periods:
            if gt(abs(P / P0 - 1), 1e-12):
                add('units:period-depends-on-unit-system', 'period of 1 au / 1 msun orbit is %r s in %r but %r s in %r' % (P, tri, P0, periods[0][1]))
                break
        if gt(abs(P0 / JY - 1), 3e-4):
            add('units:period-of-1au-1msun-orbit-not-a-year', '%r s' % P0)
        g1 = Gs.get(('au', 'yr2pi', 'msun'))
        if g1 is None or gt(abs(g1 - 1), 1e-12):
            add('units:yr2pi-does-not-give-G=1', repr(g1))
        for grp in ALIASES:
            for a, b in zip(grp, grp[1:]):
                for tri, G in Gs.items():
                    if a in tri:
                        tri2 = tuple(b if q == a else q for q in tri)
                        if tri2 in Gs and Gs[tri2] != G:
                            add('units:alias-differs:%s-%s' % (a, b), '%r G=%r vs %r G=%r' % (tri, G, tri2, Gs[tri2]))
                            break
        # conversion chains
        for _ in range(3000):
            counters['conversions'] += 1
            A = (r.choice(Ls), r.choice(Ts), r.choice(Ms))
            Bu = (r.choice(Ls), r.choice(Ts), r.choice(Ms))
            C = (r.choice(Ls), r.choice(Ts), r.choice(Ms))
            sim = rebound.Simulation()
            sim.units = A
            sim.add(m=r.uniform(0.1, 10), x=r.uniform(-5, 5), y=r.uniform(-5, 5), z=r.uniform(-5, 5), vx=r.uniform(-5, 5), vy=r.uniform(-5, 5), vz=r.uniform(-5, 5), r=r.uniform(0, 1))
            sim.add(m=r.uniform(0.1, 10), x=r.uniform(-5, 5), vy=r.uniform(-5, 5))
            s2 = sim.copy()
            s3 = sim.copy()
            orig = [(p.m, p.x, p.y, p.z, p.vx, p.vy, p.vz, p.r) for p in sim.particles]
            sim.convert_particle_units(*Bu)
            sim.convert_particle_units(*C)
            s2.convert_particle_units(*C)
            for p, q in zip(sim.particles, s2.particles):
                for f in ('m', 'x', 'y', 'z', 'vx', 'vy', 'vz', 'r'):
                    a_, b_ = getattr(p, f), getattr(q, f)
                    if gt(abs(a_ - b_), 16 * EPS * abs(b_)):
                        add('units:conversion-not-transitive', '%r->%r->%r vs direct: %s %r vs %r' % (A, Bu, C, f, a_, b_))
            if gt(abs(sim.G - s2.G), 16 * EPS * abs(s2.G)):
                add('units:G-after-conversion-chain', '%r vs %r' % (sim.G, s2.G))
            s3.convert_particle_units(*Bu)
            s3.convert_particle_units(*A)
            for p, o in zip(s3.particles, orig):
                for f, ov in zip(('m', 'x', 'y', 'z', 'vx', 'vy', 'vz', 'r'), o):
                    if gt(abs(getattr(p, f) - ov), 16 * EPS * abs(ov)):
                        add('units:conversion-not-reversible', '%r->%r->%r: %s %r vs %r' % (A, Bu, A, f, getattr(p, f), ov))
    elif kind == 'rotations':
        from rebound import Rotation
        clib.reb_vec3d_rotate.restype = rebound.vectors.Vec3dBasic
        clib.reb_rotation_slerp.restype = Rotation

        def rv(scale=1.0):
            v = [r.gauss(0, 1) for _ in range(3)]
            return [q * scale for q in v]

        def rot(q, v):
            w = q * v
            return [w[0], w[1], w[2]] if not hasattr(w, 'x') else [w.x, w.y, w.z]

        def nrm(v):
            return math.sqrt(sum(q * q for q in v))

        def qn(q):
            return math.sqrt(q.ix ** 2 + q.iy ** 2 + q.iz ** 2 + q.r ** 2)

        def check_rotation(q, label, info):
            counters['rotations'] += 1
            n = qn(q)
            if not (abs(n - 1) <= (16 * EPS if label not in ('slerp', 'compose') else (1e-12 if label == 'slerp' else 256 * EPS))):      # slerp: 'enough for visualizations' (QUATERNION_EPS) in the source
                add('rotation:not-a-unit-quaternion:%s' % label, '|q|=%r for %s' % (n, info))
                return False
            v = rv(10 ** r.uniform(-3, 3))
            w = rot(q, v)
            if gt(abs(nrm(w) - nrm(v)), 32 * EPS * nrm(v)):
                add('rotation:length-not-preserved:%s' % label, '|v|=%r |qv|=%r %s' % (nrm(v), nrm(w), info))
            back = rot(q.inverse(), w)
            if gt(max(abs(back[i] - v[i]) for i in range(3)), (64 * EPS if label != 'slerp' else 1e-11) * nrm(v)):
                add('rotation:inverse:%s' % label, '%s' % info)
            return True
        for _ in range(case['n']):
            which = r.choice(['angle_axis', 'from_to', 'from_to_degenerate', 'to_new_axes', 'orbit', 'compose'])   # slerp is excluded: the source documents it as visualisation-grade (QUATERNION_EPS 1e-4)
            if which == 'angle_axis':
                ang = r.choice([0.0, math.pi, -math.pi, 2 * math.pi, r.uniform(-10, 10), 1e-9])
                ax = rv(10 ** r.uniform(-5, 5))
                q = Rotation(angle=ang, axis=ax)
                if check_rotation(q, which, 'angle=%r axis=%r' % (ang, ax)):
                    # rotating the axis leaves it unchanged; a vector perpendicular turns by the angle
                    w = rot(q, ax)
                    if gt(max(abs(w[i] - ax[i]) for i in range(3)), 64 * EPS * nrm(ax)):
                        add('rotation:angle_axis-moves-its-axis', 'angle=%r axis=%r' % (ang, ax))
                    perp = [ax[1], -ax[0], 0.0] if abs(ax[0]) + abs(ax[1]) > 0 else [1.0, 0.0, 0.0]
                    w = rot(q, perp)
                    c = sum(w[i] * perp[i] for i in range(3)) / (nrm(perp) ** 2)
                    if gt(abs(c - math.cos(ang)), 64 * EPS * (1 + abs(ang))):
                        add('rotation:angle_axis-wrong-angle', 'angle=%r cos from rotation %r' % (ang, c))
            elif which in ('from_to', 'from_to_degenerate'):
                a = rv(10 ** r.uniform(-3, 3))
                if which == 'from_to':
                    b = rv(10 ** r.uniform(-3, 3))
                    lab = 'general'
                else:
                    counters['degenerate_rotations'] += 1
                    mode = r.choice(['parallel', 'antiparallel-axis', 'antiparallel-offaxis', 'nearly-antiparallel', 'antiparallel-scaled'])
                    if mode == 'antiparallel-axis':
                        a = [0.0, 0.0, 0.0]
                        a[r.randrange(3)] = r.choice([-1, 1]) * 10 ** r.uniform(-3, 3)
                    s = 10 ** r.uniform(-3, 3)
                    if mode == 'parallel':
                        b = [q * s for q in a]
                    elif mode == 'nearly-antiparallel':
                        d = rv(10 ** r.uniform(-12, -7) * nrm(a))
                        b = [-a[i] + d[i] for i in range(3)]
                    elif mode == 'antiparallel-offaxis':
                        a = r.choice([[1.0, 1.0, 1.0], [1.0, 2.0, 3.0], [0.0, 1.0, 1.0], [3.0, -1.0, 0.5], rv()])
                        b = [-q for q in a]
                    else:
                        b = [-q * s for q in a]
                    lab = mode
                q = Rotation.from_to(a, b)
                info = 'from=%r to=%r (%s)' % (a, b, lab)
                ok = check_rotation(q, 'from_to:' + lab, info)
                w = rot(q, a)
                bn = [x_ / nrm(b) * nrm(a) for x_ in b]
                tol = 256 * EPS * nrm(a) if lab != 'nearly-antiparallel' else 1e-5 * nrm(a)
                if ok and gt(max(abs(w[i] - bn[i]) for i in range(3)), tol):
                    add('rotation:from_to-does-not-map-from-onto-to:%s' % lab, '%s: q*from=%r expected %r' % (info, w, bn))
                cells.add(json.dumps(['rotation', 'from_to', lab]))
                continue
            elif which == 'to_new_axes' and r.random() < 0.35:
                # newx omitted: the documented default is the line of nodes, "along the z cross newz direction" - for every newz that is not
                # parallel to z, however small its inclination or its norm (the angular momentum of a light body is a short vector; z x newz is
                # (-newz.y, newz.x, 0) exactly, so the direction is well conditioned down to the implementation's cut-off of 1e-15 in |z x newz|)
                th_ = 10 ** r.uniform(-13, 0.3) if r.random() < 0.7 else r.uniform(0.01, 3.13)
                ph_ = r.uniform(0, 2 * math.pi)
                s_ = 10 ** r.uniform(-12, 0) if r.random() < 0.5 else 10 ** r.uniform(-2, 2)
                nz = [s_ * math.sin(th_) * math.cos(ph_), s_ * math.sin(th_) * math.sin(ph_), s_ * math.cos(th_)]
                q = Rotation.to_new_axes(newz=nz)
                info = 'newz=%r (inclined by %.3e to z, norm %.3e), newx omitted' % (nz, th_, s_)
                cr_ = [-nz[1], nz[0], 0.0]
                counters['to_new_axes_default_x'] = counters.get('to_new_axes_default_x', 0) + 1
                if check_rotation(q, which, info) and nrm(cr_) >= 1e-13:
                    counters['to_new_axes_default_x_with_z_cross_newz_below_1e-7'] = counters.get('to_new_axes_default_x_with_z_cross_newz_below_1e-7', 0) + int(nrm(cr_) < 1e-7)
                    w = rot(q, nz)
                    if gt(abs(w[0]), 256 * EPS * nrm(nz)) or gt(abs(w[1]), 256 * EPS * nrm(nz)) or not (w[2] >= 0):
                        add('rotation:to_new_axes-newz-not-on-z', '%s: q*newz=%r' % (info, w))
                    w = rot(q, cr_)
                    if gt(abs(w[1]), 1e-12 * nrm(cr_)) or gt(abs(w[2]), 1e-12 * nrm(cr_)) or not (w[0] >= 0):
                        add('rotation:to_new_axes-default-x-not-on-line-of-nodes', '%s: q*(z x newz)=%r, |z x newz|=%r' % (info, w, nrm(cr_)))
                cells.add(json.dumps(['rotation', 'to_new_axes', 'default-x', int(math.log10(max(nrm(cr_), 1e-300)) // 3)]))
                continue
            elif which == 'to_new_axes':
                nz = rv(10 ** r.uniform(-2, 2))
                nx = rv(10 ** r.uniform(-2, 2))
                if r.random() < 0.2:
                    nz = r.choice([[0, 0, 1.0], [0, 0, -1.0], [0, 0, -3.0], [1.0, 0, 0]])
                if r.random() < 0.25:
                    # newx chosen so that it lands within delta of -x after the first stage (newz -> z)
                    q1 = Rotation.from_to(nz, [0, 0, 1.0])
                    dl = 10 ** r.uniform(-12, -3) * r.choice([-1, 1, 0])
                    s_ = 10 ** r.uniform(-2, 2)
                    nx = list(q1.inverse() * [-s_, s_ * dl, 0.0])
                    if r.random() < 0.5:
                        nx = [nx[i] + 0.3 * nz[i] for i in range(3)]
                    counters['to_new_axes_near_minus_x'] = counters.get('to_new_axes_near_minus_x', 0) + 1
                q = Rotation.to_new_axes(newz=nz, newx=nx)
                info = 'newz=%r newx=%r' % (nz, nx)
                if check_rotation(q, which, info):
                    w = rot(q, nz)
                    d_ = sum(nx[i] * nz[i] for i in range(3)) / nrm(nz) ** 2
                    px_ = [nx[i] - d_ * nz[i] for i in range(3)]
                    amp = nrm(nx) / max(nrm(px_), 1e-300)        # newx nearly parallel to newz: its perpendicular part is ill conditioned
                    # composition of two (possibly two-stage) from_to rotations: a few thousand eps
                    if gt(abs(w[0]), 256 * EPS * nrm(nz) * amp) or gt(abs(w[1]), 256 * EPS * nrm(nz) * amp) or not (w[2] >= 0):
                        add('rotation:to_new_axes-newz-not-on-z', '%s: q*newz=%r' % (info, w))
                    # the component of newx perpendicular to newz must land on +x
                    d = sum(nx[i] * nz[i] for i in range(3)) / nrm(nz) ** 2
                    px = [nx[i] - d * nz[i] for i in range(3)]
                    if nrm(px) > 1e-6 * nrm(nx):
                        w = rot(q, px)
                        if gt(abs(w[1]), 1e-12 * nrm(px) * amp) or gt(abs(w[2]), 1e-12 * nrm(px) * amp) or not (w[0] >= 0):
                            add('rotation:to_new_axes-newx-not-on-x', '%s: q*newx_perp=%r' % (info, w))
            elif which == 'orbit':
                Om, inc, om = r.uniform(0, 2 * math.pi), r.choice([r.uniform(1e-3, math.pi - 1e-3), 0.0, math.pi]), r.uniform(0, 2 * math.pi)
                q = Rotation.orbit(Omega=Om, inc=inc, omega=om)
                info = 'Omega=%r inc=%r omega=%r' % (Om, inc, om)
                if check_rotation(q, which, info):
                    O2, i2, o2 = q.orbital()
                    q2 = Rotation.orbit(Omega=O2, inc=i2, omega=o2)
                    v = rv()
                    w1, w2 = rot(q, v), rot(q2, v)
                    if not all(math.isfinite(a_) for a_ in (O2, i2, o2)):
                        add('rotation:orbital-angles-not-finite', '%s -> (%r,%r,%r)' % (info, O2, i2, o2))
                    elif not (max(abs(w1[i] - w2[i]) for i in range(3)) <= 1e-7 * nrm(v)):
                        add('rotation:orbital-angles-do-not-reproduce-rotation', '%s -> (%r,%r,%r)' % (info, O2, i2, o2))
                    # x axis of the orbital frame: pericentre direction (M&D 2.121)
                    w = rot(q, [1.0, 0, 0])
                    ex = [math.cos(Om) * math.cos(om) - math.sin(Om) * math.sin(om) * math.cos(inc), math.sin(Om) * math.cos(om) + math.cos(Om) * math.sin(om) * math.cos(inc), math.sin(om) * math.sin(inc)]
                    if gt(max(abs(w[i] - ex[i]) for i in range(3)), 64 * EPS):
                        add('rotation:orbit-pericentre-direction', info)
            elif which == 'slerp':
                q1 = Rotation(angle=r.uniform(-3, 3), axis=rv())
                q2 = Rotation(angle=r.uniform(-3, 3), axis=rv())
                t = r.choice([0.0, 1.0, r.uniform(0, 1)])
                q = clib.reb_rotation_slerp(q1, q2, c_double(t))
                if check_rotation(q, which, 't=%r' % t):
                    v = rv()
                    tgt = rot(q1 if t == 0.0 else q2, v) if t in (0.0, 1.0) else None
                    if tgt is not None and gt(max(abs(rot(q, v)[i] - tgt[i]) for i in range(3)), 256 * EPS * nrm(v)):
                        add('rotation:slerp-endpoints', 't=%r' % t)
            elif which == 'compose':
                p_ = Rotation(angle=r.uniform(-3, 3), axis=rv())
                q_ = Rotation(angle=r.uniform(-3, 3), axis=rv())
                v = rv(10 ** r.uniform(-2, 2))
                a1 = rot(p_ * q_, v)
                a2 = rot(p_, rot(q_, v))
                check_rotation(p_ * q_, which, '')
                if gt(max(abs(a1[i] - a2[i]) for i in range(3)), 64 * EPS * nrm(v)):
                    add('rotation:composition', '(pq)v != p(qv)')
                idq = (p_ * p_.inverse())
                w = rot(idq, v)
                if gt(max(abs(w[i] - v[i]) for i in range(3)), 64 * EPS * nrm(v)):
                    add('rotation:q-times-inverse-not-identity', '')
                # the identity: acts trivially and is neutral in products, bitwise
                one_ = Rotation()
                if rot(one_, v) != list(v):
                    add('rotation:identity-moves-a-vector', '%r -> %r' % (v, rot(one_, v)))
                for pr_, nm_ in ((one_ * p_, 'left'), (p_ * one_, 'right')):
                    if (pr_.ix, pr_.iy, pr_.iz, pr_.r) != (p_.ix, p_.iy, p_.iz, p_.r):
                        add('rotation:identity-not-neutral-in-product', nm_)
                # normalize(): a rescaled quaternion is brought back to the same rotation; a unit one is left alone to rounding
                sc_ = 10 ** r.uniform(-3, 3)
                big_ = Rotation(ix=p_.ix * sc_, iy=p_.iy * sc_, iz=p_.iz * sc_, r=p_.r * sc_).normalize()
                counters['normalize_checks'] = counters.get('normalize_checks', 0) + 1
                for a_, b_ in ((big_.ix, p_.ix), (big_.iy, p_.iy), (big_.iz, p_.iz), (big_.r, p_.r)):
                    if gt(abs(a_ - b_), 16 * EPS):
                        add('rotation:normalize-does-not-restore-unit-quaternion', 'scale %g: %r vs %r' % (sc_, (big_.ix, big_.iy, big_.iz, big_.r), (p_.ix, p_.iy, p_.iz, p_.r)))
                        break
                # the C function returning a rotated copy agrees bitwise with the in-place one used by the Python operator
                from rebound.vectors import Vec3dBasic
                clib.reb_vec3d_rotate.restype = Vec3dBasic
                vb_ = Vec3dBasic()
                vb_.x, vb_.y, vb_.z = v
                wv_ = clib.reb_vec3d_rotate(vb_, p_)
                if [wv_.x, wv_.y, wv_.z] != rot(p_, v):
                    add('rotation:vec3d_rotate-differs-from-irotate', '%r vs %r' % ([wv_.x, wv_.y, wv_.z], rot(p_, v)))
            cells.add(json.dumps(['rotation', which]))
        # simulation rotation
        for _ in range(case['n'] // 20):
            counters['sim_rotations'] += 1
            sim = rebound.Simulation()
            sim.add(m=1.0)
            for i in range(r.randint(1, 5)):
                sim.add(m=10 ** r.uniform(-6, -2), a=1 + i * 0.7, e=r.uniform(0, 0.3), inc=r.uniform(0, 1), Omega=r.uniform(0, 6), omega=r.uniform(0, 6), f=r.uniform(0, 6))
            E0 = sim.energy()
            L0 = sim.angular_momentum()
            d0 = [[math.dist((p.x, p.y, p.z), (q.x, q.y, q.z)) for q in sim.particles] for p in sim.particles]
            q = Rotation(angle=r.uniform(-3, 3), axis=rv())
            # variational particles are vectors of the same space: a rotation of the simulation rotates them with it (first and second order,
            # full and test-particle sets), so that rotating and integrating commute
            varv0 = None
            if r.random() < 0.6:
                vs_ = [sim.add_variation()]
                if r.random() < 0.5:
                    vs_.append(sim.add_variation(testparticle=r.randrange(1, sim.N - sim.N_var)))
                if r.random() < 0.4:
                    vs_.append(sim.add_variation(order=2, first_order=vs_[0]))
                for v_ in vs_:
                    for pv_ in v_.particles:
                        pv_.x, pv_.y, pv_.z, pv_.vx, pv_.vy, pv_.vz = [r.uniform(-1, 1) for _q in range(6)]
                nreal_ = sim.N - sim.N_var
                varv0 = [((p.x, p.y, p.z), (p.vx, p.vy, p.vz)) for p in sim.particles[nreal_:]]
                counters['sim_rotations_with_variational_particles'] = counters.get('sim_rotations_with_variational_particles', 0) + 1
            if varv0 is not None and r.random() < 0.5:
                sim = q * sim if hasattr(q, '__mul__') and r.random() < 0.5 else (sim.rotate(q) or sim)
            else:
                sim.rotate(q)
            if varv0 is not None:
                nreal_ = sim.N - sim.N_var
                for k_, (p, (x0_, v0_)) in enumerate(zip(sim.particles[nreal_:], varv0)):
                    wx_, wv_ = rot(q, list(x0_)), rot(q, list(v0_))
                    if gt(max(abs(a_ - b_) for a_, b_ in zip((p.x, p.y, p.z, p.vx, p.vy, p.vz), wx_ + wv_)), 16 * EPS * (nrm(list(x0_)) + nrm(list(v0_)))):
                        add('rotation:sim-variational-particles-not-rotated', 'variational particle %d of %d: %r, rotation of its old coordinates gives %r' % (k_, sim.N_var, (p.x, p.y, p.z), wx_))
                        break
            E1 = sim.energy()
            L1 = sim.angular_momentum()
            nre_ = sim.N - sim.N_var
            d1 = [[math.dist((p.x, p.y, p.z), (q_.x, q_.y, q_.z)) for q_ in sim.particles[:nre_]] for p in sim.particles[:nre_]]
            if gt(abs(E1 - E0), 256 * EPS * abs(E0)):
                add('rotation:sim-energy-changed', '%r -> %r' % (E0, E1))
            if gt(max(abs(d1[i][j] - d0[i][j]) for i in range(nre_) for j in range(nre_)), 64 * EPS * max(max(row) for row in d0)):
                add('rotation:sim-pair-distance-changed', '')
            Lr = rot(q, list(L0))
            if gt(max(abs(Lr[i] - L1[i]) for i in range(3)), 256 * EPS * nrm(list(L0))):
                add('rotation:sim-angular-momentum-not-rotated', 'L0=%r rotated %r L1=%r' % (list(L0), Lr, list(L1)))
            cells.add(json.dumps(['rotation', 'simulation']))
    elif kind == 'frames':
        for _ in range(case['n']):
            N = r.randint(1, 8)
            sim = rebound.Simulation()
            for i in range(N):
                sim.add(m=r.choice([0.0, 10 ** r.uniform(-6, 1)]) if i else 10 ** r.uniform(-2, 1), x=r.uniform(-10, 10), y=r.uniform(-10, 10), z=r.uniform(-10, 10), vx=r.uniform(-3, 3), vy=r.uniform(-3, 3), vz=r.uniform(-3, 3))
            special = r.choice([None, None, 'p0-at-rest-at-origin', 'com-at-rest-at-origin'])
            if special == 'p0-at-rest-at-origin':
                # the usual fresh star: the shift of the real particles is the identity, the variational ones still have to be shifted
                p0 = sim.particles[0]
                p0.x = p0.y = p0.z = p0.vx = p0.vy = p0.vz = 0.0
            elif special == 'com-at-rest-at-origin' and N >= 2:
                p0, p1 = sim.particles[0], sim.particles[1]
                p1.m = p0.m
                p1.x, p1.y, p1.z, p1.vx, p1.vy, p1.vz = -p0.x, -p0.y, -p0.z, -p0.vx, -p0.vy, -p0.vz
                for i in range(2, N):
                    sim.particles[i].m = 0.0
            if special:
                counters['frame_shifts_from_' + special] = counters.get('frame_shifts_from_' + special, 0) + 1
            nvar = r.choice([0, 0, 1, 2]) if not special else r.choice([1, 2])
            vars_ = []
            for v in range(nvar):
                tp = -1
                vv = sim.add_variation(order=1, testparticle=tp)
                for i in range(N):
                    pv = vv.particles[i]
                    pv.m = r.choice([0.0, r.uniform(-1, 1)])
                    pv.x, pv.y, pv.z = r.uniform(-1, 1), r.uniform(-1, 1), r.uniform(-1, 1)
                    pv.vx, pv.vy, pv.vz = r.uniform(-1, 1), r.uniform(-1, 1), r.uniform(-1, 1)
                vars_.append(vv)
            v2 = None
            if nvar == 2 and r.random() < 0.7:
                # a second-order variation whose two first-order parents both carry coordinate AND mass variations
                v2 = sim.add_variation(order=2, first_order=vars_[0], first_order_2=vars_[1])
                for i in range(N):
                    pv = v2.particles[i]
                    pv.m = r.choice([0.0, r.uniform(-1, 1)])
                    pv.x, pv.y, pv.z = r.uniform(-1, 1), r.uniform(-1, 1), r.uniform(-1, 1)
                    pv.vx, pv.vy, pv.vz = r.uniform(-1, 1), r.uniform(-1, 1), r.uniform(-1, 1)
            ld = np.longdouble
            if v2 is not None:
                var20 = np.array([[v2.particles[i].x, v2.particles[i].y, v2.particles[i].z, v2.particles[i].vx, v2.particles[i].vy, v2.particles[i].vz] for i in range(N)], dtype=ld)
                ddm0 = np.array([v2.particles[i].m for i in range(N)], dtype=ld)
            real0 = np.array([[p.x, p.y, p.z, p.vx, p.vy, p.vz] for p in sim.particles[:N]], dtype=ld)
            m0 = np.array([p.m for p in sim.particles[:N]], dtype=ld)
            var0 = [np.array([[vv.particles[i].x, vv.particles[i].y, vv.particles[i].z, vv.particles[i].vx, vv.particles[i].vy, vv.particles[i].vz] for i in range(N)], dtype=ld) for vv in vars_]
            dm0 = [np.array([vv.particles[i].m for i in range(N)], dtype=ld) for vv in vars_]
            shift = r.choice(['com', 'hel'])
            counters['frame_shifts'] += 1
            Mt = m0.sum()
            com = (m0[:, None] * real0).sum(axis=0) / Mt
            if shift == 'com':
                sim.move_to_com()
                ref = com
            else:
                sim.move_to_hel()
                ref = real0[0]
            real1 = np.array([[p.x, p.y, p.z, p.vx, p.vy, p.vz] for p in sim.particles[:N]], dtype=ld)
            scale = float(np.abs(real0).max()) + 1e-300
            if shift == 'com':
                c1 = (m0[:, None] * real1).sum(axis=0) / Mt
                if gt(float(np.abs(c1).max()), 16 * EPS * scale * N):
                    add('frame:move_to_com-com-not-at-rest-at-origin', 'COM after = %r' % [float(q) for q in c1])
            else:
                if any(float(q) != 0.0 for q in real1[0]):
                    add('frame:move_to_hel-particle0-not-at-origin', repr([float(q) for q in real1[0]]))
            want = real0 - ref
            if gt(float(np.abs(real1 - want).max()), 8 * EPS * scale):
                add('frame:%s-relative-coordinates-changed' % shift, 'max deviation %.3e' % float(np.abs(real1 - want).max()))
            # first-order variational particles: derivative of x_i - ref(x, m)
            for vi, vv in enumerate(vars_):
                counters['variational_shifts'] += 1
                if shift == 'com':
                    dM = dm0[vi].sum()
                    dref = ((dm0[vi][:, None] * real0).sum(axis=0) + (m0[:, None] * var0[vi]).sum(axis=0)) / Mt - com * dM / Mt
                else:
                    dref = var0[vi][0]
                wantv = var0[vi] - dref
                gotv = np.array([[vv.particles[i].x, vv.particles[i].y, vv.particles[i].z, vv.particles[i].vx, vv.particles[i].vy, vv.particles[i].vz] for i in range(N)], dtype=ld)
                vs = float(np.abs(var0[vi]).max()) + float(np.abs(dref).max()) + 1e-300
                if gt(float(np.abs(gotv - wantv).max()), 1024 * EPS * vs * N * (1 + scale)):      # measured max 64 x (cancellation in m x / M for N = 1)
                    add('frame:%s-variational-particles-not-shifted-consistently' % shift, 'N=%d: variational particle coordinates after the shift differ from d/dp of the shifted state by %.3e (scale %.3e)' % (
                        N, float(np.abs(gotv - wantv).max()), vs))
            if v2 is not None:
                # second derivative of y_i = x_i - S/M with S = sum m_j x_j, M = sum m_j, all evaluated on the state BEFORE the shift
                counters['second_order_variational_shifts'] = counters.get('second_order_variational_shifts', 0) + 1
                if shift == 'com':
                    S = (m0[:, None] * real0).sum(axis=0)
                    Sa = (dm0[0][:, None] * real0 + m0[:, None] * var0[0]).sum(axis=0)
                    Sb = (dm0[1][:, None] * real0 + m0[:, None] * var0[1]).sum(axis=0)
                    Sab = (ddm0[:, None] * real0 + dm0[0][:, None] * var0[1] + dm0[1][:, None] * var0[0] + m0[:, None] * var20).sum(axis=0)
                    Ma, Mb, Mab = dm0[0].sum(), dm0[1].sum(), ddm0.sum()
                    ddref = Sab / Mt - (Sa * Mb + Sb * Ma) / Mt ** 2 - S * Mab / Mt ** 2 + 2 * S * Ma * Mb / Mt ** 3
                else:
                    ddref = var20[0]
                want2 = var20 - ddref
                got2 = np.array([[v2.particles[i].x, v2.particles[i].y, v2.particles[i].z, v2.particles[i].vx, v2.particles[i].vy, v2.particles[i].vz] for i in range(N)], dtype=ld)
                vs2 = float(np.abs(var20).max()) + float(np.abs(ddref).max()) + 1e-300
                mixed = bool(np.any(dm0[0] != 0) and np.any(dm0[1] != 0))
                if mixed:
                    counters['second_order_shifts_with_two_mass_variations'] = counters.get('second_order_shifts_with_two_mass_variations', 0) + 1
                if gt(float(np.abs(got2 - want2).max()), 256 * EPS * vs2 * N * (1 + scale) * (1 + float(np.abs(dm0[0]).max() + np.abs(dm0[1]).max()) / float(Mt)) ** 2):
                    add('frame:%s-second-order-variational-particles-not-shifted-consistently' % shift, 'N=%d: second-order variational coordinates after the shift differ from d2/dp dq of the shifted state by %.3e (scale %.3e; both parents vary masses: %r)' % (
                        N, float(np.abs(got2 - want2).max()), vs2, mixed))
            cells.add(json.dumps(['frame', shift, nvar > 0, v2 is not None]))
            # linear maps on simulations
            counters['linear_maps'] += 1
            s1 = rebound.Simulation()
            s2 = rebound.Simulation()
            for i in range(N):
                for s in (s1, s2):
                    s.add(m=r.uniform(0, 2), x=r.uniform(-5, 5), y=r.uniform(-5, 5), z=r.uniform(-5, 5), vx=r.uniform(-5, 5), vy=r.uniform(-5, 5), vz=r.uniform(-5, 5))
            a, b = r.uniform(-3, 3), r.uniform(-3, 3)
            if r.random() < 0.4:
                # the special scalars: exactly 0 (freeze / project), -0.0, +-1, and equal scalars
                a, b = r.choice([(a, 0.0), (a, -0.0), (0.0, b), (1.0, 0.0), (a, a), (-1.0, 1.0), (0.0, 0.0), (a, 1.0)])
            base = [(p.x, p.y, p.z, p.vx, p.vy, p.vz) for p in s1.particles]
            other = [(p.x, p.y, p.z, p.vx, p.vy, p.vz) for p in s2.particles]
            t = s1.copy()
            t.multiply(a, b)
            for p, o in zip(t.particles, base):
                if (p.x, p.y, p.z, p.vx, p.vy, p.vz) != (o[0] * a, o[1] * a, o[2] * a, o[3] * b, o[4] * b, o[5] * b):
                    add('linear:multiply', 'multiply(%r,%r)' % (a, b))
                    break
            t = s1 + s2
            for p, o, q in zip(t.particles, base, other):
                if (p.x, p.y, p.z, p.vx, p.vy, p.vz) != tuple(o[i] + q[i] for i in range(6)):
                    add('linear:add', 'sim+sim is not coordinate-wise addition')
                    break
            t = s1 - s2
            for p, o, q in zip(t.particles, base, other):
                if (p.x, p.y, p.z, p.vx, p.vy, p.vz) != tuple(o[i] - q[i] for i in range(6)):
                    add('linear:sub', 'sim-sim is not coordinate-wise subtraction')
                    break
            t = s1 * a
            for p, o in zip(t.particles, base):
                if (p.x, p.y, p.z, p.vx, p.vy, p.vz) != tuple(o[i] * a for i in range(6)):
                    add('linear:mul', 'sim*scalar')
                    break
            if a != 0:
                t = s1 / a
                for p, o in zip(t.particles, base):
                    if gt(max(abs(getattr(p, f) - o[i] / a) for i, f in enumerate(('x', 'y', 'z', 'vx', 'vy', 'vz'))), 4 * EPS * max(abs(q) for q in o) / abs(a)):
                        add('linear:div', 'sim/scalar')
                        break
            # reflected and in-place forms (a * sim, sim *= a, sim /= a, sim += sim2, sim -= sim2) are the same maps; the binary forms above
            # must have left their operands untouched
            def coords(s_):
                return [(p.x, p.y, p.z, p.vx, p.vy, p.vz) for p in s_.particles]
            if coords(s1) != base or coords(s2) != other:
                add('linear:binary-operator-changed-an-operand', 'after sim+sim, sim-sim, sim*a, sim/a an operand differs from before')
            t = a * s1
            if coords(t) != [tuple(o[i] * a for i in range(6)) for o in base]:
                add('linear:rmul', 'scalar*sim')
            t = s1.copy()
            t *= a
            if coords(t) != [tuple(o[i] * a for i in range(6)) for o in base]:
                add('linear:imul', 'sim *= scalar')
            if a != 0:
                t = s1.copy()
                t /= a
                if any(gt(abs(g_ - o_ * (1.0 / a)), 4 * EPS * abs(o_ / a)) for gp, op in zip(coords(t), base) for g_, o_ in zip(gp, op)):
                    add('linear:idiv', 'sim /= scalar')
            t = s1.copy()
            t += s2
            if coords(t) != [tuple(o[i] + q[i] for i in range(6)) for o, q in zip(base, other)] or coords(s2) != other:
                add('linear:iadd', 'sim += sim2 is not coordinate-wise addition (or changed sim2)')
            t = s1.copy()
            t -= s2
            if coords(t) != [tuple(o[i] - q[i] for i in range(6)) for o, q in zip(base, other)] or coords(s2) != other:
                add('linear:isub', 'sim -= sim2 is not coordinate-wise subtraction (or changed sim2)')
            if [p.m for p in t.particles] != [p.m for p in s1.particles]:
                add('linear:masses-changed', 'sim -= sim2 changed the masses')
            counters['linear_maps_inplace'] = counters.get('linear_maps_inplace', 0) + 1
            s3 = rebound.Simulation()
            s3.add(m=1.0)
            if N != 1:
                before = [(p.x, p.vx, p.m) for p in s1.particles]
                raised = False
                try:
                    s1 += s3
                except Exception:
                    raised = True
                after = [(p.x, p.vx, p.m) for p in s1.particles]
                if not raised:
                    add('linear:iadd-different-N-accepted', 'N=%d += N=1 did not raise' % N)
                if before != after:
                    add('linear:iadd-different-N-mutated', '')
    for v in viol:
        v['case_seed'] = case['seed']
    return dict(violations=viol, cells=[json.loads(c) for c in cells], counters=counters, sample=dict(kind=kind, seed=case['seed']))


def main(tier, seed):
    V = core.Verdict(PROPERTY, tier, seed)
    r = core.rng(PROPERTY, seed)
    nb = 64 if tier == "quick" else 1200
    cases = [dict(kind='units', seed=r.getrandbits(40))]
    for i in range(nb):
        cases.append(dict(kind='rotations', seed=r.getrandbits(40), n=1500))
        cases.append(dict(kind='frames', seed=r.getrandbits(40), n=300))
    res = core.run_cases('checks.c20_symmetries', 'rel', cases, timeout_case=900, chunk=1)
    for c, rr in zip(cases, res):
        V.absorb(c, rr)
    inc = []
    for k in ('unit_triples', 'conversions', 'rotations', 'degenerate_rotations', 'sim_rotations', 'frame_shifts', 'variational_shifts', 'linear_maps'):
        if V.counters.get(k, 0) == 0:
            inc.append('monitor counter %s is zero' % k)
    return V.finish(
        rule="units: every (length,time,mass) key triple of rebound/units.py (exhaustive), 3000 random conversion chains; rotations: random + degenerate constructor inputs; frames: random "
             "systems with 0-2 first-order variational configurations; distinct = unit triples + (rotation constructor, degenerate mode) + (frame shift, variational?)",
        extra_cov=dict(exhaustive=True, exhaustive_part='unit triples'),
        assumptions=["independent SI table in this file (2e-4 tolerance: constants of different epochs differ at the 1e-5 level)", "first-order variational shift formula d(x_i - X_com)"],
        floor=100, inconclusive_if=inc)


def replay(path):
    return 1
