"""C09 - deferred synchronisation never changes the physics.

 1. pair runs: the same system under safe mode and under safe_mode=0 + synchronize at the end (n steps, optionally followed by
    integrate() to a target less than one step away with exact finishing): end states agree to accumulated rounding for the
    exact-drift families (WHFast all coordinate systems/kernels/correctors, SABA all types, MERCURIUS, WHFast512) and to the
    scheme's own truncation error for EOS (measured against a tight IAS15 reference);
 2. observer non-interference (keep_unsynchronized=1): run A takes n steps silently, run B takes the same steps with random
    synchronize / energy / copy / save-to-stream / save-to-file / orbits / angular-momentum calls in between: the internal
    coordinates (p_jh) are bitwise equal at every step and the final synchronised states are bitwise equal - incl. variational
    particles (MEGNO) under WHFast;
 3. idempotence: synchronize(); synchronize() is bitwise synchronize(), in every state.
"""
import json, math, os, random
from vf import core, gen
from vf.num import gt, nmax as max, nmin as min

PROPERTY = "C09"
EPS = 2.0 ** -52


def run_case(case):
    import ctypes, warnings
    warnings.simplefilter('ignore')
    import rebound
    from rebound import clibrebound as clib
    from vf import rt
    r = random.Random(case['seed'])
    viol = []
    counters = dict(pair_runs=0, pair_runs_with_short_integrate=0, observer_runs=0, observer_ops=0, idempotence_checks=0, eos_pairs=0, variational_observer_runs=0, unsynchronized_states_seen=0)
    cells = set()

    def add(mech, msg):
        if len(viol) < 40:
            viol.append(dict(mech=mech, msg=msg))

    def state(sim):
        return [(p.x, p.y, p.z, p.vx, p.vy, p.vz) for p in sim.particles]

    def maxdiff(a, b):
        return max(max(abs(x - y) for x, y in zip(p, q)) for p, q in zip(a, b))

    def scale_of(a):
        return max(max(abs(x) for x in p) for p in a)

    def unsafe_opts(integ):
        return {'whfast': {'ri_whfast.safe_mode': 0}, 'saba': {'ri_saba.safe_mode': 0}, 'mercurius': {'ri_mercurius.safe_mode': 0}, 'eos': {'ri_eos.safe_mode': 0}, 'whfast512': {}}[integ]

    integs = case['integrators']
    for _ in range(case['n']):
        integ = r.choice(integs)
        spec = gen.random_spec(random.Random(r.getrandbits(40)), integ=integ, allow_var=False, nmax=4, avx512=(integ == 'whfast512'))
        for k in list(spec['opts']):
            if k.endswith('safe_mode') or k.endswith('keep_unsynchronized'):
                del spec['opts'][k]
        what = r.choice(['pair', 'pair', 'observer', 'observer', 'idem'])
        if integ in ('eos', 'mercurius') and what == 'observer':
            what = 'pair'            # no keep_unsynchronized option
        if integ == 'whfast512' and what == 'pair':
            what = 'observer'        # WHFast512 has no safe mode to compare with
        n = r.choice([1, 2, 3, 7, 20, 100, 300])
        if integ == 'whfast' and what == 'pair' and spec['system'].get('kind') == 'planets' and r.random() < 0.25:
            # corrector round trips in safe mode: every step is wrapped in corrector and inverse corrector, so an inverse that does not invert
            # leaves its residue n times (unsafe mode: once).  Heavy planet + many steps makes that residue stand out of the rounding envelope.
            spec['opts']['ri_whfast.corrector2'] = 1
            spec['opts'].setdefault('ri_whfast.corrector', r.choice([0, 3, 7, 17]))
            if spec['opts'].get('ri_whfast.coordinates', 'jacobi') not in ('jacobi', 'barycentric'):
                spec['opts']['ri_whfast.coordinates'] = r.choice(['jacobi', 'barycentric'])      # the only ones correctors are defined for
            mmax = max(p_['m'] for p_ in spec['system']['planets'])
            if mmax > 0:
                for p_ in spec['system']['planets']:
                    p_['m'] *= 2e-3 / mmax
            n = 300
            counters['pair_runs_second_corrector_heavy_planet'] = counters.get('pair_runs_second_corrector_heavy_planet', 0) + 1
        if what == 'pair':
            counters['pair_runs'] += 1
            sA = gen.build_sim(spec)
            specB = json.loads(json.dumps(spec))
            specB['opts'].update(unsafe_opts(integ))
            sB = gen.build_sim(specB)
            sA.steps(n)
            sB.steps(n)
            unsync = getattr(getattr(sB, 'ri_' + integ), 'is_synchronized') == 0
            counters['unsynchronized_states_seen'] += int(unsync)
            short = r.random() < 0.4
            if short:
                counters['pair_runs_with_short_integrate'] += 1
                tgt = sA.t + sA.dt * r.uniform(0.1, 0.9)
                sA.integrate(tgt, exact_finish_time=1)
                sB.integrate(tgt, exact_finish_time=1)
            else:
                sA.synchronize()
                sB.synchronize()
            a, b = state(sA), state(sB)
            d = maxdiff(a, b)
            sc = scale_of(a)
            if integ != 'eos':
                corrected = bool(spec['opts'].get('ri_whfast.corrector') or spec['opts'].get('ri_whfast.corrector2'))
                # measured on 4500 pairs: <= 15 eps (n+2) scale without correctors, <= 400 eps (n+20) scale with (the correctors are long
                # compositions with large coefficients whose rounding the safe mode pays at every step; before the second corrector's
                # inverse was repaired - fix 2692c7f - the maximum was 6000 and grew with the planet mass). An operator applied
                # twice or skipped is an error of order (mass ratio) dt^2 ~ 1e-7 or more.
                K = 2e4 if corrected else 2048
                # the correctors' rounding does not grow with n in unsafe mode (applied once at each end) but is not small: n + 20
                if gt(d, K * EPS * (n + (20 if corrected else 2)) * sc):
                    add('sync:safe-vs-unsafe-differ:%s%s' % (integ, ':then-short-exact-integrate' if short else ''), '%s opts %r n=%d: max|diff|=%.3e (scale %.3e, %.1f eps n scale)' % (integ, spec['opts'], n, d, sc, d / (EPS * n * sc)))
            else:
                counters['eos_pairs'] += 1
                # The merged drift of unsafe mode runs the inner scheme phi1 with its n substeps over the merged interval: unsafe
                # mode with 2n substeps has the inner step of safe mode with n substeps in the merged drifts and that of safe
                # mode with 2n substeps elsewhere, so its error against the true trajectory lies between the two (this is
                # "the scheme's own truncation error"; measured: equal to a few percent except where the merged drift dominates).
                n_in = int(spec['opts'].get('ri_eos.n', 2))
                spec2n = json.loads(json.dumps(spec))
                spec2n['opts']['ri_eos.n'] = 2 * n_in
                specU = json.loads(json.dumps(spec2n))
                specU['opts'].update(unsafe_opts(integ))
                sA2, sU = gen.build_sim(spec2n), gen.build_sim(specU)
                sA2.steps(n)
                sU.steps(n)
                if short:
                    sA2.integrate(tgt, exact_finish_time=1)
                    sU.integrate(tgt, exact_finish_time=1)
                else:
                    sU.synchronize()
                sR = gen.build_sim(dict(spec, integrator='ias15', opts={'ri_ias15.epsilon': 1e-9}))
                sR.integrate(sA.t, exact_finish_time=1)
                ref = state(sR)
                err_safe, err_safe2, err_unsafe = maxdiff(a, ref), maxdiff(state(sA2), ref), maxdiff(state(sU), ref)
                # processed outer schemes (pmlf4, pmlf6, plf7_6_4) apply their pre/post-processor only at synchronisation in unsafe mode:
                # the inner scheme's error then no longer cancels between consecutive processors (observed ratios up to 13); a
                # processor applied twice or skipped is an error of the order of the processor itself, 1e3-1e5 times larger
                processed = str(spec['opts'].get('ri_eos.phi0', 'lf')).lower() in ('pmlf4', 'pmlf6', 'plf7_6_4')
                if gt(err_unsafe, (100 if processed else 4) * max(err_safe, err_safe2) + 1e4 * EPS * (n + 2) * sc):
                    add('sync:unsafe-error-exceeds-scheme-truncation:eos', 'opts %r n=%d: |unsafe(2n)-ref|=%.3e but |safe(n)-ref|=%.3e |safe(2n)-ref|=%.3e' % (spec['opts'], n, err_unsafe, err_safe, err_safe2))
                # exact relation: unsafe mode synchronised after every step performs the same operations as safe mode
                sC = gen.build_sim(specB)
                for _i in range(min(n, 40)):
                    sC.steps(1)
                    sC.synchronize()
                sD = gen.build_sim(spec)
                sD.steps(min(n, 40))
                counters['eos_sync_every_step_pairs'] = counters.get('eos_sync_every_step_pairs', 0) + 1
                if state(sC) != state(sD):
                    add('sync:unsafe-synchronised-every-step-differs-from-safe:eos', 'opts %r n=%d: max|diff| %.3e' % (spec['opts'], min(n, 40), maxdiff(state(sC), state(sD))))
            cells.add(json.dumps(['pair', integ, sorted(k for k in spec['opts'] if k.startswith('ri_' + integ)), short]))
        elif what == 'observer':
            counters['observer_runs'] += 1
            specK = json.loads(json.dumps(spec))
            specK['opts'].update(unsafe_opts(integ))
            specK['opts']['ri_%s.keep_unsynchronized' % integ] = 1
            var = integ == 'whfast' and r.random() < 0.4
            if var:
                specK['opts']['ri_whfast.coordinates'] = 'jacobi'
                specK['opts']['ri_whfast.kernel'] = 'default'
                specK['megno'] = True
                counters['variational_observer_runs'] += 1
            sA = gen.build_sim(specK)
            sB = gen.build_sim(specK)
            ri = 'ri_' + integ
            fn = os.path.join(os.getcwd(), 'c09_%d.bin' % os.getpid())

            def pjh(s):
                rw = getattr(s, ri)
                if integ == 'whfast512':
                    return rt.sabin_sim(s).get('ri_whfast512.pjh')
                c = rt.sabin_sim(s)
                return c.get('ri_whfast.p_jh')
            bad = False
            for i in range(n):
                sA.steps(1)
                sB.steps(1)
                k = r.random()
                ops = []
                while k < 0.6:
                    op = r.choice(['sync', 'energy', 'copy', 'stream', 'file', 'orbits', 'L', 'com'])
                    counters['observer_ops'] += 1
                    ops.append(op)
                    if op == 'sync':
                        sB.synchronize()
                    elif op == 'energy':
                        sB.energy()
                    elif op == 'copy':
                        c = sB.copy()
                        del c
                    elif op == 'stream':
                        rt.save_bytes(sB)
                    elif op == 'file':
                        sB.save_to_file(fn, delete_file=True)
                    elif op == 'orbits':
                        sB.orbits()
                    elif op == 'L':
                        sB.angular_momentum()
                    elif op == 'com':
                        sB.com()
                    k = r.random()
                # note: reading p_jh through save_bytes is itself an observation of A; it must not matter either
                if n <= 20 or i % 10 == 0:
                    pa, pb = pjh(sA), pjh(sB)
                    if pa != pb:
                        add('sync:observer-changes-internal-state:%s%s' % (integ, ':variational' if var else ''), '%s opts %r: internal coordinates differ after step %d; observations this step %r' % (integ, specK['opts'], i + 1, ops))
                        bad = True
                        break
            if os.path.exists(fn):
                os.unlink(fn)
            if not bad:
                sA.synchronize()
                sB.synchronize()
                ca, cb = rt.sabin_sim(sA), rt.sabin_sim(sB)
                dk = rt.diff_keys(ca, cb)
                if dk:
                    add('sync:observer-changes-trajectory:%s%s' % (integ, ':variational' if var else ''), '%s opts %r n=%d: final states differ in %r' % (integ, specK['opts'], n, dk))
            cells.add(json.dumps(['observer', integ, var, sorted(k for k in spec['opts'] if k.startswith(ri))]))
        else:
            counters['idempotence_checks'] += 1
            specU = json.loads(json.dumps(spec))
            specU['opts'].update(unsafe_opts(integ))
            if r.random() < 0.5 and integ in ('whfast', 'saba', 'whfast512'):
                specU['opts']['ri_%s.keep_unsynchronized' % integ] = 1
            s = gen.build_sim(specU)
            s.steps(n)
            s.synchronize()
            c1 = rt.sabin_sim(s)
            s.synchronize()
            c2 = rt.sabin_sim(s)
            dk = rt.diff_keys(c1, c2)
            if dk:
                add('sync:second-synchronize-changes-state:%s' % integ, '%s opts %r: %r' % (integ, specU['opts'], dk))
            cells.add(json.dumps(['idem', integ, 'keep' if any('keep' in k for k in specU['opts']) else 'nokeep']))
    for v in viol:
        v['case_seed'] = case['seed']
    return dict(violations=viol, cells=[json.loads(c) for c in cells], counters=counters, sample=dict(seed=case['seed']))


def main(tier, seed):
    V = core.Verdict(PROPERTY, tier, seed)
    r = core.rng(PROPERTY, seed)
    nb = 320 if tier == 'quick' else 3000
    have512 = 'avx512f' in open('/proc/cpuinfo').read()
    cases = {'rel': [], 'avx512': []}
    for i in range(nb):
        cases['rel'].append(dict(seed=r.getrandbits(40), n=12, integrators=['whfast', 'whfast', 'saba', 'saba', 'mercurius', 'eos']))
    for i in range(max(4, nb // 10)):
        cases['avx512'].append(dict(seed=r.getrandbits(40), n=12, integrators=['whfast512']))
    for variant, cs in cases.items():
        if variant == 'avx512' and not have512:
            V.inconclusive.append('CPU lacks avx512f: WHFast512 not exercised')
            continue
        res = core.run_cases('checks.c09_sync', variant, cs, timeout_case=600)
        for c, rr in zip(cs, res):
            V.absorb(c, rr)
    inc = []
    for k in ('pair_runs', 'pair_runs_with_short_integrate', 'observer_runs', 'observer_ops', 'idempotence_checks', 'eos_pairs', 'variational_observer_runs', 'unsynchronized_states_seen'):
        if V.counters.get(k, 0) == 0:
            inc.append('monitor counter %s is zero' % k)
    return V.finish(
        rule="random planetary systems x option tuples (WHFast: 4 coordinate systems, 4 kernels, 6 correctors, corrector2; SABA: 18 types; EOS: 9x9 splittings; MERCURIUS switching functions; WHFast512) x n in {1..300}; "
             "distinct = (monitor, integrator, option-name set, variant flags)",
        assumptions=["rounding envelope 256 eps (n+2) scale for safe-vs-unsafe; EOS compared with 10x its own error against a tight IAS15 run"], floor=25, inconclusive_if=inc)


def replay(path):
    return 1
