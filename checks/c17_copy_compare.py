"""C17 - copies are independent and equal; compare reports exactly the real differences.

Monitors on generated states (same generator as C05):
 1. equal pairs must compare equal (==, reb_simulation_diff): (x, copy x), (x, load(save x)), (copy after k steps, source after k steps);
    ground truth for "equal" is the independent parser (sabin), not the function under test; evaluated twice with different heap layouts.
 2. single-field perturbation, exhaustive over the library's field table: perturb exactly one persisted field in a copy;
    if sabin says the persisted content changed, compare must say "different" (walltime* excepted: must say equal), in both argument orders.
 3. independence: after c=copy(x): step c, edit c, free c -> x's persisted state and pointer members unchanged, and x then evolves
    bitwise like a never-copied twin; and the copy evolves bitwise like the source. Half the cases run under ASan+UBSan.
"""
import json, os, random
from vf import core, gen
from checks.c14_bookkeeping import crash_mech

PROPERTY = "C17"


def run_case(case):
    import ctypes, warnings, struct, gc
    warnings.simplefilter('ignore')
    import rebound
    from rebound import clibrebound as clib
    from vf import rt
    spec = case['spec']
    viol = []
    counters = dict(equal_pairs=0, perturbations=0, perturbations_effective=0, independence_checks=0, walltime_perturbations=0,
                    states_with_variations=0, unsynchronized_states=0, fields_present_absent=0)
    clib.reb_simulation_diff.restype = ctypes.c_int
    cells = []

    def build():
        x = gen.build_sim(spec)
        sp = spec['savepoint']
        if sp['kind'] == 'steps':
            x.steps(sp['n'])
        return x

    def cdiff(a, b):
        return clib.reb_simulation_diff(ctypes.byref(a), ctypes.byref(b), ctypes.c_int(2))

    def creport(a, b):
        """names listed by the human-readable report (what Simulation.diff prints), and the raw text"""
        clib.reb_simulation_diff_char.restype = ctypes.c_void_p
        p_ = clib.reb_simulation_diff_char(ctypes.byref(a), ctypes.byref(b))
        if not p_:
            return None, ''
        txt = ctypes.string_at(p_).decode('utf-8', 'replace')
        clib.reb_free(ctypes.c_void_p(p_))
        names = [ln[:-1] for ln in txt.split('\n') if ln.endswith(':') and not ln.startswith(('\x1b', '<', '>', '-'))]
        return names, txt

    def must_equal(a, b, what):
        counters['equal_pairs'] += 1
        ca, cb = rt.sabin_sim(a), rt.sabin_sim(b)
        truth_keys = rt.diff_keys(ca, cb)
        if truth_keys:
            # the pair is not equal according to the independent oracle: that is a C05-type issue, not decided here
            counters['pairs_not_equal_by_oracle'] = counters.get('pairs_not_equal_by_oracle', 0) + 1
            counters['oracle_unequal:' + ','.join(truth_keys)[:60] + ':' + spec['integrator']] = 1
            return
        r1, r2 = cdiff(a, b), cdiff(b, a)
        e1 = (a == b)
        if r1 != 0 or r2 != 0 or not e1:
            # find which field the implementation thinks differs
            clib.reb_simulation_diff_char.restype = ctypes.c_void_p
            ptr = clib.reb_simulation_diff_char(ctypes.byref(a), ctypes.byref(b))
            txt = ctypes.string_at(ptr).decode('utf-8', 'replace') if ptr else ''
            import re
            names = re.findall(r'^([A-Za-z_0-9\.]+):$', re.sub(r'\x1b\[[0-9;]*m', '', txt), re.M)
            viol.append(dict(mech='compare:equal-states-reported-different:%s' % ','.join(sorted(set(names)))[:80],
                             msg='%s: sabin-equal states compare different (diff=%d/%d, ==%r); fields named: %r' % (what, r1, r2, e1, names[:6])))

    x = build()
    if spec.get('var') or spec.get('megno'):
        counters['states_with_variations'] = 1
    part = case['part']
    if part == 'equal':
        from checks.c05_roundtrip import reattach
        for rep in range(2):
            y = x.copy()
            reattach(y, spec)
            must_equal(x, y, 'copy')
            z = rebound.Simulation(rt.save_bytes(x))
            reattach(z, spec)
            must_equal(x, z, 'restored snapshot')
            for obj, lab in ((y, 'copy'), (z, 'restored snapshot')):
                for iv in range(int(obj.N_var_config)):
                    vc = obj.var_config[iv]
                    counters['var_config_owner_checks'] = counters.get('var_config_owner_checks', 0) + 1
                    if not vc._sim or ctypes.addressof(vc._sim.contents) != ctypes.addressof(obj):
                        viol.append(dict(mech='copy:shares-memory:var_config[].sim', msg='configuration %d (order %d) of the %s does not point at its own simulation' % (iv, vc.order, lab)))
            # evolve both
            k = case['k']
            treemode = spec.get('gravity') == 'tree' or spec.get('collision') in ('tree', 'linetree')
            shash = rt.state_hash_unordered if treemode else rt.state_hash   # see C05: the tree re-orders the particle array
            if treemode and spec.get('collision', 'none') != 'none':
                # known finding: collision resolution depends on the particle-array order, which the (non-persisted) tree determines.
                # That explains a divergence only if both runs resolved collisions in exactly the same steps up to the divergence.
                div, explained = rt.lockstep_tree_collisions(x, y, k, shash)
                counters['tree_collision_locksteps'] = counters.get('tree_collision_locksteps', 0) + 1
                if div is not None:
                    viol.append(dict(mech='copy:evolves-differently:tree-mode-with-collisions' if explained else 'copy:evolves-differently:tree-mode:collisions-detected-in-different-steps',
                                     msg='copy and source differ at step %d of %d (collision events source %r copy %r)' % (div, k, rt.coll_events(x), rt.coll_events(y))))
                else:
                    must_equal(x, y, 'copy and source after %d steps each' % k)
            else:
                x.steps(k)
                y.steps(k)
                must_equal(x, y, 'copy and source after %d steps each' % k)
                if shash(x) != shash(y):
                    viol.append(dict(mech='copy:evolves-differently', msg='copy and source differ after %d steps' % k))
            # heap noise, then rebuild everything at different addresses
            noise = [ctypes.create_string_buffer(random.Random(rep).randrange(16, 70000)) for _ in range(50)]
            x = build()
            # twin: the same construction again, over freed memory that holds garbage. Every member that is saved or
            # compared must be determined by the construction (an uninitialised member shows up as a difference here)
            junk = [ctypes.create_string_buffer(b'\xa5' * sz) for sz in (24, 40, 56, 80, 120, 200, 400, 800, 1600) for _ in range(12)]
            del junk
            tw = build()
            counters['twin_builds'] = counters.get('twin_builds', 0) + 1
            ca, cb = rt.sabin_sim(x), rt.sabin_sim(tw)
            dk = [k_ for k_ in rt.diff_keys(ca, cb) if k_ not in ('walltime', 'walltime_last_step', 'walltime_last_steps', 'walltime_last_steps_sum', 'walltime_last_steps_N')]
            if dk:
                viol.append(dict(mech='twin:identically-built-states-differ:%s' % ','.join(dk)[:80], msg='two simulations built by the same calls differ in saved fields %r' % dk))
            elif cdiff(x, tw) != 0:
                viol.append(dict(mech='twin:identically-built-states-compare-different', msg='reb_simulation_diff reports a difference between two simulations built by the same calls'))
            del tw
        cells.append(['equal', spec['integrator'], bool(spec.get('var') or spec.get('megno')), spec.get('gravity'), spec.get('collision')])
    elif part == 'independence':
        twin = build()
        before = rt.sabin_sim(x)
        bx = ctypes.string_at(ctypes.addressof(x), ctypes.sizeof(x))
        from checks.c05_roundtrip import reattach
        c = x.copy()
        reattach(c, spec)
        # no pointer member of c may equal the corresponding non-null pointer member of x
        with open(case['ptrs']) as f:
            ptrs = json.load(f)
        bc = ctypes.string_at(ctypes.addressof(c), ctypes.sizeof(c))
        for pth, off in ptrs:
            px = struct.unpack_from('<Q', bx, off)[0]
            pc = struct.unpack_from('<Q', bc, off)[0]
            if px != 0 and px == pc and pth not in case['shared_ok']:
                viol.append(dict(mech='copy:shares-memory:%s' % pth, msg='pointer member %s of the copy equals the source\'s (%#x)' % (pth, px)))
        k = case['k']
        c.steps(k)
        if c.N > 0:
            c.particles[0].x += 1.0
            c.particles[c.N - 1].m *= 2.0
        # variational configurations carry a back pointer to their simulation: edits made through the COPY's configuration objects
        # (first and second order, test-particle) must land in the copy, never in the source
        for iv in range(int(c.N_var_config)):
            vc = c.var_config[iv]
            counters['var_config_edits_through_copy'] = counters.get('var_config_edits_through_copy', 0) + 1
            owner = ctypes.addressof(vc._sim.contents) if vc._sim else 0
            if owner != ctypes.addressof(c):
                viol.append(dict(mech='copy:shares-memory:var_config[].sim', msg='configuration %d (order %d) of the copy points at %s' % (iv, vc.order, 'the SOURCE simulation' if owner == ctypes.addressof(x) else hex(owner))))
                break
            try:
                vp = vc.particles
                if len(vp):
                    vp[0].x += 0.125
            except Exception as e_:
                viol.append(dict(mech='copy:var_config-unusable', msg='configuration %d of the copy: %s: %s' % (iv, type(e_).__name__, e_)))
                break
        c.dt *= 0.5
        c.G *= 1.5
        try:
            c.add(m=1e-3, x=99.0, y=1.0)
        except Exception:
            pass
        counters['independence_checks'] += 1
        after = rt.sabin_sim(x)
        if before != after:
            viol.append(dict(mech='copy:editing-copy-changed-source:%s' % ','.join(rt.diff_keys(before, after))[:80], msg='stepping/editing the copy changed source fields %r' % rt.diff_keys(before, after)))
        del c
        gc.collect()
        noise = [ctypes.create_string_buffer(4096 + 64 * i) for i in range(200)]   # reuse freed memory
        after = rt.sabin_sim(x)
        if before != after:
            viol.append(dict(mech='copy:freeing-copy-changed-source', msg='after freeing the copy the source changed in %r' % rt.diff_keys(before, after)))
        x.steps(k)
        twin.steps(k)
        treemode = spec.get('gravity') == 'tree' or spec.get('collision') in ('tree', 'linetree')
        shash = rt.state_hash_unordered if treemode else rt.state_hash
        if shash(x) != shash(twin):
            viol.append(dict(mech='copy:source-evolves-differently-after-copy', msg='source that had been copied differs from never-copied twin after %d steps' % k))
        # symmetric: editing the source does not change a copy
        c2 = x.copy()
        b2 = rt.sabin_sim(c2)
        x.steps(3)
        if x.N:
            x.particles[0].vx += 0.5
        if rt.sabin_sim(c2) != b2:
            viol.append(dict(mech='copy:editing-source-changed-copy', msg='fields %r' % rt.diff_keys(b2, rt.sabin_sim(c2))))
        cells.append(['independence', spec['integrator'], case['variant'], bool(spec.get('var') or spec.get('megno'))])
    elif part == 'perturb':
        ft = rt.field_table()
        with open(case['members']) as f:
            members = json.load(f)          # C member path -> offset, from DWARF (independent of the table under test)
        base = rt.sabin_sim(x)
        from checks.c05_roundtrip import reattach
        y0 = x.copy()
        reattach(y0, spec)
        if cdiff(x, y0) or cdiff(y0, x):
            # baseline pair already compares different: decided by the equal-pair monitor, perturbation verdicts would be meaningless
            counters['perturb_baseline_unequal'] = 1
            must_equal(x, y0, 'copy (perturbation baseline)')
            for v in viol:
                v['spec'] = {k: spec[k] for k in spec if k != 'system'}
            return dict(violations=viol, cells=[], counters=counters)
        del y0
        psize = ctypes.sizeof(rebound.Particle)
        prng = random.Random(case.get('seed', 0) if isinstance(case.get('seed', 0), int) else 0)
        pmembers = [(n_.lstrip('_'), getattr(rebound.Particle, n_).offset) for n_ in ('x', 'y', 'z', 'vx', 'vy', 'vz', 'ax', 'ay', 'az', 'm', 'r', 'last_collision', '_hash')]
        work = []
        for fid, row in sorted(ft.items()):
            dtype, name, esize, off, offN = row
            if dtype in (12, 13):      # REB_OTHER / END
                continue
            if dtype in (9, 10) and esize == psize and name != 'var_config':
                # arrays of struct reb_particle: every member that is persisted, in a random element (not only the first bytes of the array)
                for mn, mo in pmembers:
                    if name == 'ri_whfast.p_jh' and mn not in ('x', 'y', 'z', 'vx', 'vy', 'vz', 'm'):
                        continue        # scratch particles: the other members carry no state (see vf/rt.py mask_pjh)
                    work.append((fid, row, (mn, mo)))
            else:
                work.append((fid, row, None))
        for fid, (dtype, name, esize, off, offN), pm in work:
            if name in members and members[name] != off:
                viol.append(dict(mech='table:offset-of-field-is-another-member:%s' % name, msg='field table row %r points at offset %d, the C member of that name is at %d' % (name, off, members[name])))
                off = members[name]
            counters['table_rows_checked_against_dwarf'] = counters.get('table_rows_checked_against_dwarf', 0) + int(name in members)
            y = x.copy()
            reattach(y, spec)
            addr = ctypes.addressof(y)
            did = None
            wall_differs = bool(prng.getrandbits(1)) and not name.startswith('walltime')
            if wall_differs:
                # source and copy have been busy for different wall-clock times (as after advancing them separately): still equal, and a
                # real difference in any other field must still be reported
                for fid2, (dt2, nm2, es2, off2, offN2) in ft.items():
                    if nm2.startswith('walltime') and dt2 == 0:
                        w_ = ctypes.c_uint64.from_address(addr + off2)
                        w_.value ^= 1 << 30
                counters['perturbations_with_walltime_differing'] = counters.get('perturbations_with_walltime_differing', 0) + 1
                if cdiff(x, y) or cdiff(y, x) or not (x == y):
                    viol.append(dict(mech='compare:walltime-difference-reported', msg='only the walltime fields differ but compare says different'))
            ybytes = ctypes.string_at(addr, ctypes.sizeof(y))
            if dtype in (0,):          # double: flip lowest mantissa bit... use a visible bit
                v = ctypes.c_uint64.from_address(addr + off)
                v.value ^= 1 << 30
                did = 'double bit 30'
            elif dtype in (1, 2, 3):
                v = ctypes.c_uint32.from_address(addr + off)
                if name == 'N':
                    if v.value < 2:
                        continue
                    v.value -= 1
                elif name in ('N_var',):
                    continue
                else:
                    v.value ^= 1
                did = 'int low bit'
            elif dtype in (4, 5):
                v = ctypes.c_uint64.from_address(addr + off)
                v.value ^= 1
                did = 'int64 low bit'
            elif dtype == 7:
                v = ctypes.c_uint64.from_address(addr + off + 8)
                v.value ^= 1 << 30
                did = 'vec3d.y bit'
            elif dtype in (9, 10, 11):
                n = ctypes.c_uint32.from_address(addr + offN).value
                if n == 0:
                    continue
                if dtype == 11:
                    p = ctypes.c_uint64.from_address(addr + off).value      # dp7.p0
                else:
                    p = ctypes.c_uint64.from_address(addr + off).value
                if not p:
                    continue
                pos = 0
                if pm is not None:
                    pos = prng.randrange(max(1, min(n, x.N))) * psize + pm[1]
                    counters['particle_member_perturbations'] = counters.get('particle_member_perturbations', 0) + 1
                elif name == 'var_config':
                    # any persisted member of a random configuration: order @8, index @12, testparticle @16, index_1st_order_a @20,
                    # index_1st_order_b @24, lrescale @32 (never the back pointer to the simulation @0)
                    pos = prng.randrange(max(1, n)) * rt.VARCFG_SIZE + prng.choice([8, 12, 16, 20, 24, 32, 32]) - 3
                    pos = max(pos, 5)
                    counters['var_config_member_perturbations'] = counters.get('var_config_member_perturbations', 0) + 1
                elif name in ('ri_whfast.p_jh',):
                    pos = 8
                elif name == 'ri_whfast512.pjh':
                    pos = 64
                b = ctypes.c_uint8.from_address(p + pos + 3)
                b.value ^= 0x10
                did = 'array element byte' if pm is None else 'particle member %s' % pm[0]
            elif dtype == 15:
                v = ctypes.c_uint64.from_address(addr + off + 8)
                v.value ^= 1 << 30
                did = 'particle4'
            elif dtype == 16:
                p = ctypes.c_uint64.from_address(addr + off).value
                if not p:
                    clib.reb_simulation_add_display_settings(ctypes.byref(y))
                    did = 'display_settings absent->present'
                    counters['fields_present_absent'] += 1
                else:
                    b = ctypes.c_uint8.from_address(p + 3)
                    b.value ^= 0x10
                    did = 'display_settings byte'
            else:
                continue
            counters['perturbations'] += 1
            cy = rt.sabin_sim(y, drop_walltime=False)
            cx = rt.sabin_sim(x, drop_walltime=False)
            changed = [k_ for k_ in rt.diff_keys(cx, cy) if not (wall_differs and str(k_).startswith('walltime'))]
            is_wall = name.startswith('walltime')
            r1, r2 = cdiff(x, y), cdiff(y, x)
            eq = (x == y)
            rn, rtxt = creport(x, y)
            if is_wall:
                counters['walltime_perturbations'] += 1
                if r1 or r2 or not eq:
                    viol.append(dict(mech='compare:walltime-difference-reported', msg='only %s differs but compare says different' % name))
                ctypes.memmove(addr, ybytes, len(ybytes))
                continue
            # ... but only where the raw bit flip leaves a VALID state: not in fields that give the length of a persisted array (the stream writer
            # trusts them), the particle counts, the module selectors (a flipped selector can demand a tree for a box that was never configured),
            # and not at all on states that carry a tree (box geometry, root counts)
            has_tree_ = spec.get('gravity') == 'tree' or spec.get('collision') in ('tree', 'linetree')
            count_fields = set(row_[4] for row_ in ft.values() if row_[0] in (9, 10, 11))
            valid_ = (not has_tree_) and off not in count_fields and name not in ('N', 'N_var', 'N_active', 'N_var_config', 'gravity', 'collision', 'boundary', 'integrator') and 'N_allocated' not in name
            if changed and valid_ and dtype in (0, 1, 2, 3, 4, 5, 7, 15):
                # a copy of the perturbed state carries the perturbed field: copies are equal to their source in EVERY persisted scalar, also those
                # that the state generator never moves off their default (message handling, display / output settings, seeds, counters)
                try:
                    z = y.copy()
                    cz = rt.sabin_sim(z, drop_walltime=False)
                    counters['copies_of_a_state_with_one_field_off_default'] = counters.get('copies_of_a_state_with_one_field_off_default', 0) + 1
                    lost = [str(k_) for k_ in changed if cz.get(k_) != cy.get(k_)]
                    if lost:
                        viol.append(dict(mech='copy:does-not-carry-field:%s' % ','.join(lost)[:60], msg='source with %s changed (%s): its copy differs from it in %r' % (name, did, lost)))
                    elif cdiff(y, z) or cdiff(z, y) or not (y == z):
                        if not [k_ for k_ in rt.diff_keys(rt.sabin_sim(y), rt.sabin_sim(z))]:
                            viol.append(dict(mech='compare:equal-states-reported-different:copy-of-state-with-%s-off-default' % name, msg='copy of a source with %s changed (%s) compares different although the persisted content is equal' % (name, did)))
                    del z
                except RuntimeError as e_:
                    counters['copies_of_perturbed_state_refused'] = counters.get('copies_of_perturbed_state_refused', 0) + 1
            if dtype not in (9, 10, 11, 16):
                ctypes.memmove(addr, ybytes, len(ybytes))      # undo the raw perturbation before the copy is freed
            if not changed:
                counters['ineffective:' + name] = counters.get('ineffective:' + name, 0) + 1
                # a member listed in the field table was changed in memory but neither the saved stream nor (hence) compare can see it:
                # two simulations differing in a persisted quantity compare equal
                viol.append(dict(mech='compare:listed-field-change-invisible:%s' % name, msg='changing struct member %s (%s) does not change the saved content; diff=%d/%d' % (name, did, r1, r2)))
                continue        # the perturbation did not reach the persisted content (e.g. re-derived by init): says nothing
            counters['perturbations_effective'] += 1
            cells.append(['perturb', name] + ([pm[0]] if pm else []))
            # the human-readable report (Simulation.diff): names exactly the fields whose persisted content differs (wall-clock fields may be listed)
            counters['reports_checked'] = counters.get('reports_checked', 0) + 1
            if rn is None:
                viol.append(dict(mech='report:no-text-returned', msg='reb_simulation_diff_char returned NULL for a pair differing in %s' % name))
            else:
                truth_ = set(str(k_) for k_ in changed)
                listed_ = set(n_ for n_ in rn if not n_.startswith('walltime'))
                if not truth_ <= listed_:
                    viol.append(dict(mech='report:differing-field-not-listed:%s' % name, msg='fields %r differ (%s) but the report lists only %r' % (sorted(truth_ - listed_), did, sorted(listed_))))
                if not listed_ <= truth_:
                    viol.append(dict(mech='report:field-listed-that-does-not-differ', msg='perturbed %s (%s): the report lists %r, persisted content differs only in %r' % (name, did, sorted(listed_ - truth_), sorted(truth_))))
                if len(rn) != len(set(rn)):
                    viol.append(dict(mech='report:field-listed-twice', msg='perturbed %s: %r' % (name, rn)))
            if r1 == 0 or r2 == 0 or eq:
                viol.append(dict(mech='compare:difference-not-reported:%s' % name, msg='field %s (%s) changed persisted fields %r but diff(x,y)=%d diff(y,x)=%d ==%r' % (name, did, changed, r1, r2, eq)))
            del y
    for v in viol:
        v['spec'] = {k: spec[k] for k in spec if k != 'system'}
    return dict(violations=viol, cells=cells, counters=counters, sample=dict(part=part, integrator=spec['integrator'], opts=spec.get('opts')))


def plan(tier, seed):
    r = core.rng(PROPERTY, seed)
    n = 800 if tier == 'quick' else 8000
    out = {'rel': [], 'asan': []}
    for i in range(n):
        variant = 'asan' if i % 4 == 3 else 'rel'
        spec = gen.random_module_spec(r) if r.random() < 0.25 else gen.random_spec(r)
        spec['savepoint'] = dict(kind=r.choice(['t0', 'steps', 'steps']), n=r.choice([1, 3, 10, 30]))
        part = ['equal', 'independence', 'perturb'][i % 3] if i % 10 else 'perturb'
        kk = r.choice([1, 5, 25])
        if part == 'equal' and i % 4 == 1:
            # enough copies of states that need the (non-persisted) TREE for their collision search only - tree / linetree collisions without tree
            # gravity: the copy has to rebuild the tree before its first search, and the two runs must register collisions in the same steps
            rc_ = core.rng(PROPERTY, seed, 'treecoll', i)
            for _t in range(200):
                sp_ = gen.random_module_spec(rc_)
                if sp_.get('collision') in ('tree', 'linetree') and sp_.get('gravity') != 'tree':
                    spec = sp_
                    spec['savepoint'] = dict(kind='steps', n=rc_.choice([1, 3, 10]))
                    kk = 25
                    break
        out[variant].append(dict(spec=spec, part=part, k=kk, variant=variant))
    return out


def main(tier, seed):
    from vf import layout
    import tempfile, shutil
    V = core.Verdict(PROPERTY, tier, seed)
    D = layout.dwarf_layout('dbg', ['reb_simulation'])
    ptrs = []

    def walk(fields, prefix, base):
        for f in fields:
            if f['kind'] == 'ptr':
                ptrs.append((prefix + f['fname'], base + f['offset']))
            elif f['kind'] == 'struct':
                walk(f['fields'], prefix + f['fname'] + '.', base + f['offset'])
    walk(D['structs']['reb_simulation']['fields'], '', 0)
    members = {}

    def walkm(fields, prefix, base):
        for f in fields:
            members[prefix + f['fname']] = base + f['offset']
            if f['kind'] == 'struct':
                walkm(f['fields'], prefix + f['fname'] + '.', base + f['offset'])
    walkm(D['structs']['reb_simulation']['fields'], '', 0)
    td = tempfile.mkdtemp(prefix='c17-')
    mp = os.path.join(td, 'members.json')
    with open(mp, 'w') as f:
        json.dump(members, f)
    pp = os.path.join(td, 'ptrs.json')
    with open(pp, 'w') as f:
        json.dump(ptrs, f)
    # pointers that legitimately alias between a source and its copy: none (server/display data are not copied)
    shared_ok = []
    for variant, cases in plan(tier, seed).items():
        for c in cases:
            c['ptrs'] = pp
            c['members'] = mp
            c['shared_ok'] = shared_ok
        res = core.run_cases('checks.c17_copy_compare', variant, cases, timeout_case=300)
        for c, r in zip(cases, res):
            c = {k: c[k] for k in c if k not in ('ptrs', 'shared_ok', 'members')}
            V.absorb(c, r, crash_mech)
    shutil.rmtree(td, ignore_errors=True)
    inc = []
    for k in ('equal_pairs', 'perturbations_effective', 'independence_checks', 'walltime_perturbations', 'states_with_variations'):
        if V.counters.get(k, 0) == 0:
            inc.append('monitor counter %s is zero' % k)
    nfields = len([c for c in V.cells if c.startswith('["perturb"')])
    return V.finish(
        rule="generated states (C05 generator) x {equal-pair, independence, single-field-perturbation}; perturbation enumerates every field id of the "
             "library's descriptor table present in the state; distinct = (monitor, integrator, variations?, modules) cells and (perturb, field name) cells; "
             "a perturbation counts only if the independent parser confirms the persisted content changed",
        extra_cov=dict(distinct_fields_perturbed=nfields),
        assumptions=["equality ground truth = pointer-masked sabin dictionaries", "ASan red zones"], floor=30, inconclusive_if=inc)


def replay(path):
    return 1
