"""C11 - orbital elements and Cartesian coordinates are consistent in both directions.

Monitors (all against the real functions through ctypes / the Python front end):
 A. forward: reb_particle_from_orbit_err(elements) vs an independent 50-digit element->Cartesian map  (K eps cond scale);
 B. round trip: elements -> particle -> reb_orbit_from_particle_err -> elements -> particle: Cartesian state reproduced; a, e, inc and
    the well-defined longitudes (theta, pomega, l) reproduced modulo 2 pi; Pal elements likewise;
 C. ranges and defining relations of every returned orbit, evaluated from the Cartesian state at 50 digits;
 D. anomaly functions (C reb_M_to_E / reb_E_to_f / reb_M_to_f and the Python wrappers): residual of Kepler's equation, half-angle relation,
    incl. M exactly 0, +-pi, multiples of 2 pi and hyperbolic pericentre;
 E. front ends: for random keyword subsets (legal and illegal) the Python constructor and the C format-string parser must both accept or both
    reject, never return a NaN particle without an error, and build bit-identical particles (<= 4 ulp when P or T had to be converted).
"""
import json, math, os, random, sys
from vf import core
from vf.num import gt, nmax as max, nmin as min

PROPERTY = "C11"
EPS = 2.0 ** -52
TWO_PI = 2 * math.pi


def mp_state(mp, mu, a, e, inc, Om, om, f):
    """independent elements -> relative cartesian state (mp)"""
    a, e, inc, Om, om, f = [mp.mpf(q) for q in (a, e, inc, Om, om, f)]
    mu = mp.mpf(mu)
    p = a * (1 - e * e)
    r = p / (1 + e * mp.cos(f))
    h = mp.sqrt(mu * p)
    xp, yp = r * mp.cos(f), r * mp.sin(f)
    vxp, vyp = -mu / h * mp.sin(f), mu / h * (e + mp.cos(f))
    ci, si, cO, sO, co, so = mp.cos(inc), mp.sin(inc), mp.cos(Om), mp.sin(Om), mp.cos(om), mp.sin(om)

    def rot(x, y):
        x1, y1 = co * x - so * y, so * x + co * y
        return (cO * x1 - sO * ci * y1, sO * x1 + cO * ci * y1, si * y1)
    return list(rot(xp, yp)) + list(rot(vxp, vyp))


def angdiff(a, b):
    d = (a - b) % TWO_PI
    return min(d, TWO_PI - d)


def run_case(case):
    import ctypes, warnings
    from ctypes import c_double, c_int, byref, c_char_p
    warnings.simplefilter('ignore')
    sys.path.insert(0, os.path.join(os.path.dirname(os.path.dirname(os.path.abspath(__file__))), '.deps'))
    import mpmath as mp
    mp.mp.dps = 50
    import rebound
    from rebound import clibrebound as clib, Particle, Orbit
    r = random.Random(case['seed'])
    viol = []
    counters = dict(forward=0, roundtrips=0, relations=0, anomaly_calls=0, frontend_pairs=0, frontend_rejected_both=0, frontend_accepted_both=0, planar=0, circular=0, retrograde=0, hyperbolic=0)
    cells = set()
    clib.reb_particle_from_orbit_err.restype = Particle
    clib.reb_orbit_from_particle_err.restype = Orbit
    clib.reb_particle_from_pal.restype = Particle
    clib.reb_particle_from_fmt.restype = Particle
    for fn in ('reb_M_to_E', 'reb_E_to_f', 'reb_M_to_f'):
        getattr(clib, fn).restype = c_double
    kind = case['kind']

    def add(mech, msg):
        if len(viol) < 40:
            viol.append(dict(mech=mech, msg=msg))

    if kind == 'elements':
        for _ in range(case['n']):
            G = 10 ** r.uniform(-10, 10) if r.random() < 0.5 else 1.0
            mprim = 10 ** r.uniform(-3, 3)
            m = r.choice([0.0, 10 ** r.uniform(-12, 0) * mprim])
            hyp = r.random() < 0.3
            a = 10 ** r.uniform(-8, 8) * (-1 if hyp else 1)
            ecls = r.choice(['zero', 'tiny', 'low', 'mid', 'high']) if not hyp else r.choice(['hlow', 'hmid', 'hhigh'])
            e = {'zero': 0.0, 'tiny': 10 ** r.uniform(-12, -8.5), 'low': r.uniform(1e-6, 0.3), 'mid': r.uniform(0.3, 0.9), 'high': 1 - 10 ** r.uniform(-6, -1),
                 'hlow': 1 + 10 ** r.uniform(-6, -1), 'hmid': r.uniform(1.1, 5), 'hhigh': r.uniform(5, 100)}[ecls]
            icls = r.choice(['zero', 'tiny', 'gen', 'gen', 'retro', 'pi_minus', 'pi'])
            inc = {'zero': 0.0, 'tiny': 10 ** r.uniform(-12, -8.5), 'gen': r.uniform(1e-3, math.pi / 2 - 1e-3), 'retro': r.uniform(math.pi / 2 + 1e-3, math.pi - 1e-3),
                   'pi_minus': math.pi - 10 ** r.uniform(-12, -8.5), 'pi': math.pi}[icls]
            Om = r.choice([0.0, r.uniform(0, TWO_PI), TWO_PI * r.randint(1, 3), r.uniform(-10, 10)])
            om = r.choice([0.0, r.uniform(0, TWO_PI), r.uniform(-10, 10)])
            if hyp:
                fmax = math.acos(-1 / e)
                f = r.uniform(-0.98 * fmax, 0.98 * fmax) if r.random() < 0.8 else 0.0
            else:
                f = r.choice([0.0, math.pi, r.uniform(0, TWO_PI), r.uniform(-20, 20), TWO_PI])
            prim = Particle(m=mprim, x=r.uniform(-1, 1), y=r.uniform(-1, 1), z=r.uniform(-1, 1), vx=r.uniform(-1, 1), vy=r.uniform(-1, 1), vz=r.uniform(-1, 1)) if r.random() < 0.5 else Particle(m=mprim)
            err = c_int(0)
            p = clib.reb_particle_from_orbit_err(c_double(G), prim, c_double(m), c_double(a), c_double(e), c_double(inc), c_double(Om), c_double(om), c_double(f), byref(err))
            vals = [p.x, p.y, p.z, p.vx, p.vy, p.vz]
            if err.value != 0:
                add('orbit:valid-elements-rejected:err%d' % err.value, 'a=%r e=%r inc=%r Om=%r om=%r f=%r' % (a, e, inc, Om, om, f))
                continue
            if not all(math.isfinite(q) for q in vals):
                add('orbit:nan-particle-without-error', 'a=%r e=%r inc=%r Om=%r om=%r f=%r -> %r' % (a, e, inc, Om, om, f, vals))
                continue
            mu = mp.mpf(G) * (mp.mpf(m) + mp.mpf(mprim))
            want = mp_state(mp, mu, a, e, inc, Om, om, f)
            rel = [mp.mpf(vals[i]) - mp.mpf(getattr(prim, q)) for i, q in enumerate(('x', 'y', 'z', 'vx', 'vy', 'vz'))]
            rs = max(abs(q) for q in want[:3])
            vs = max(abs(q) for q in want[3:])
            ps = max(abs(getattr(prim, q)) for q in ('x', 'y', 'z'))
            pvs = max(abs(getattr(prim, q)) for q in ('vx', 'vy', 'vz'))
            cond = (1 + e) / abs(1 - e) + e if e != 1 else 1e300     # near-parabolic and high-e hyperbolic are both ill conditioned
            big = 1 + abs(f) + abs(Om) + abs(om)            # angle arguments lose |angle| eps absolutely
            dd = math.sqrt(sum(float(q) ** 2 for q in rel[:3]))
            vd = math.sqrt(sum(float(q) ** 2 for q in rel[3:]))
            cancel0 = max(1.0, max(abs(getattr(p, q)) for q in ('x', 'y', 'z')) / (dd + 1e-300), max(abs(getattr(p, q)) for q in ('vx', 'vy', 'vz')) / (vd + 1e-300))
            counters['forward'] += 1
            ex = max(abs(rel[i] - want[i]) for i in range(3)) / (mp.mpf(EPS) * (rs * cond * big + ps) + mp.mpf(10) ** -300)
            ev = max(abs(rel[i] - want[i]) for i in range(3, 6)) / (mp.mpf(EPS) * (vs * cond * big + pvs) + mp.mpf(10) ** -300)
            if gt(ex, 64) or gt(ev, 64):
                add('orbit:forward-differs-from-definition', 'err/(eps scale cond)=%.3g/%.3g a=%r e=%r inc=%r Om=%r om=%r f=%r G=%r' % (float(ex), float(ev), a, e, inc, Om, om, f, G))
            # ---- back
            err2 = c_int(0)
            o = clib.reb_orbit_from_particle_err(c_double(G), p, prim, byref(err2))
            if err2.value:
                add('orbit:from-particle-error:%d' % err2.value, 'a=%r e=%r' % (a, e))
                continue
            counters['roundtrips'] += 1
            counters['planar'] += int(icls in ('zero', 'tiny', 'pi_minus', 'pi'))
            counters['circular'] += int(ecls in ('zero', 'tiny'))
            counters['retrograde'] += int(inc > math.pi / 2)
            counters['hyperbolic'] += int(hyp)
            tolc = 4096 * EPS * cond * big * cancel0
            if gt(abs(o.a - a), tolc * abs(a) * cond):
                add('orbit:roundtrip-a', 'a in %r out %r (e=%r)' % (a, o.a, e))
            if gt(abs(o.e - e), tolc * 4 + 1e-300):
                add('orbit:roundtrip-e', 'e in %r out %r (a=%r, f=%r)' % (e, o.e, a, f))
            if gt(abs(o.inc - inc), max(tolc, 3e-8 if icls in ('zero', 'tiny', 'pi', 'pi_minus') else 0)):     # acos near 0/pi: sqrt(eps) conditioning
                add('orbit:roundtrip-inc', 'inc in %r out %r' % (inc, o.inc))
            # ranges
            rng = dict(e=o.e >= 0, inc=0 <= o.inc <= math.pi)
            for nm in ('f', 'l', 'theta', 'omega') + (() if (hyp or o.e >= 1) else ('M',)):
                v = getattr(o, nm)
                rng[nm] = (0 <= v < TWO_PI + 1e-15) or v != v and False
            for nm, okk in rng.items():
                if not okk and abs(1 - e) < 1e-4 and getattr(o, nm) != getattr(o, nm):
                    counters['nan_element_near_parabolic_skipped'] = counters.get('nan_element_near_parabolic_skipped', 0) + 1
                    continue
                if not okk:
                    add('orbit:element-out-of-range:%s' % nm, '%s=%r for a=%r e=%r inc=%r' % (nm, getattr(o, nm), a, e, inc))
            # relations from the Cartesian state (mp)
            counters['relations'] += 1
            X, Vv = rel[:3], rel[3:]
            dot = lambda A, B: A[0] * B[0] + A[1] * B[1] + A[2] * B[2]
            d = mp.sqrt(dot(X, X))
            vv = mp.sqrt(dot(Vv, Vv))
            hvec = [X[1] * Vv[2] - X[2] * Vv[1], X[2] * Vv[0] - X[0] * Vv[2], X[0] * Vv[1] - X[1] * Vv[0]]
            hh = mp.sqrt(dot(hvec, hvec))
            a_true = 1 / (2 / d - vv * vv / mu)
            n_true = (1 if a_true > 0 else -1) * mp.sqrt(mu / abs(a_true) ** 3)
            cancel = max(1.0, float(max(abs(getattr(p, q)) for q in ('x', 'y', 'z')) / (d + mp.mpf(10) ** -300)), float(max(abs(getattr(p, q)) for q in ('vx', 'vy', 'vz')) / (vv + mp.mpf(10) ** -300)))
            tr = 64 * EPS * cancel

            def relerr(got, wantv, scale=None):
                s = abs(wantv) if scale is None else scale
                return float(abs(mp.mpf(got) - wantv) / (s + mp.mpf(10) ** -300))
            checks = [('d', relerr(o.d, d), tr), ('v', relerr(o.v, vv), tr), ('h', relerr(o.h, hh, d * vv), tr), ('a', relerr(o.a, a_true), tr * cond * 4),
                      ('n', relerr(o.n, n_true), tr * cond * 8), ('P', relerr(o.P, 2 * mp.pi / n_true), tr * cond * 8)]
            for nm, ee, tol in checks:
                if not (ee <= tol):
                    add('orbit:relation:%s' % nm, '%s: relative error %.3g > %.3g (a=%r e=%r inc=%r f=%r)' % (nm, ee, tol, a, e, inc, f))
            # longitudes: l = Omega+omega+M, theta = Omega+omega+f, pomega = Omega+omega (prograde); retrograde: Omega-omega-...
            sgn = 1 if o.inc < math.pi / 2 else -1
            tola = max(2e-7 if (ecls in ('zero', 'tiny') or icls in ('zero', 'tiny', 'pi', 'pi_minus')) else 0, 1024 * EPS * cond * big * cancel0 / max(min(e, 1.0), 1e-3))
            tsq = 4 * math.sqrt(EPS * cancel0 * cond / max(min(e, 1.0), 1e-8))      # acos-conditioned angles within ~1e-6 of 0 or pi

            def angtol(ang, amp=1.0):
                # an angle recovered through acos(c): error ~ eps*amp/|sin(angle)|, at most ~sqrt(eps*amp)
                return min(4 * math.sqrt(EPS * cancel0 * cond * amp), 64 * EPS * cancel0 * cond * amp / max(abs(math.sin(ang)), 1e-300))
            ecap = max(min(e, 1.0), 1e-8)
            tola = tola + angtol(Om) + angtol(om, 1 / ecap) + angtol(om + f) + angtol(f, 1 / ecap)
            if gt(angdiff(o.theta, o.Omega + sgn * (o.omega + o.f)), tola):
                add('orbit:relation:theta', 'theta=%r Omega=%r omega=%r f=%r inc=%r' % (o.theta, o.Omega, o.omega, o.f, o.inc))
            if gt(angdiff(o.pomega, o.Omega + sgn * o.omega), tola):
                add('orbit:relation:pomega', 'pomega=%r Omega=%r omega=%r inc=%r' % (o.pomega, o.Omega, o.omega, o.inc))
            if o.e > 1e-6 and not hyp and gt(angdiff(o.l, o.Omega + sgn * (o.omega + o.M)), tola * 4 + 16 * EPS * cond ** 1.5):
                add('orbit:relation:l', 'l=%r Omega=%r omega=%r M=%r inc=%r e=%r' % (o.l, o.Omega, o.omega, o.M, o.inc, o.e))
            # true longitude against the input: theta_in = Om + om + f (prograde) / Om - om - f (retrograde)
            sg_in = 1 if math.cos(inc) > 0 else -1
            if gt(angdiff(o.theta, Om + sg_in * (om + f)), max(tola, 3e-8 * (1 if icls != 'gen' and icls != 'retro' else 0)) + 1e-7 * (ecls in ('zero', 'tiny'))):
                add('orbit:roundtrip-theta', 'theta out %r, in %r (Om=%r om=%r f=%r inc=%r e=%r)' % (o.theta, (Om + sg_in * (om + f)) % TWO_PI, Om, om, f, inc, e))
            # Kepler's equation between M and f of the returned orbit
            if not hyp and o.e < 1 and o.e > 1e-8:
                Ean = 2 * math.atan2(math.sqrt(1 - o.e) * math.sin(o.f / 2), math.sqrt(1 + o.e) * math.cos(o.f / 2))
                Mk = Ean - o.e * math.sin(Ean)
                # E comes from acos(1-d/a)/e: sqrt(eps)-conditioned within ~1e-7 of pericentre/apocentre
                # f = (omega+f) - omega inherits the acos conditioning of both; dM/df <= cond
                if gt(angdiff(Mk, o.M), 4 * (angtol(o.f, 1 / ecap) + tola) * cond + 4096 * EPS * cancel0 * cond ** 1.5 / o.e):
                    add('orbit:relation:kepler-M-f', 'M=%r but f=%r e=%r gives M=%r' % (o.M, o.f, o.e, Mk % TWO_PI))
            elif hyp:
                if o.e <= 1:
                    continue
                targ = math.sqrt((o.e - 1) / (o.e + 1)) * math.tan(((o.f + math.pi) % TWO_PI - math.pi) / 2)
                if abs(targ) >= 1:
                    continue        # f at the asymptote to rounding: F not defined
                Fan = 2 * math.atanh(targ)
                Mk = o.e * math.sinh(Fan) - Fan
                # defining relation for hyperbolic orbits: M = e sinh F - F (not reduced modulo 2 pi: M is not an angle)
                hyp_tol = 256 * EPS * cancel0 * (o.e * math.cosh(Fan)) ** 2 / max(abs(math.sinh(Fan)), math.sqrt(EPS * cancel0))
                dMdf = (o.e * math.cosh(Fan) - 1) ** 2 / math.sqrt(o.e * o.e - 1)
                if abs(Mk - o.M) > (4096 * EPS * cancel0 * cond ** 1.5) * (1 + abs(Mk)) + hyp_tol + 4 * tola * dMdf:
                    kk = abs(Mk - o.M) / TWO_PI
                    mech = 'orbit:hyperbolic-mean-anomaly-wrapped-to-2pi' if (round(kk) >= 1 and abs(kk - round(kk)) < 1e-6) else 'orbit:relation:hyperbolic-kepler-M-f'
                    add(mech, 'M=%r but f=%r e=%r gives e sinh F - F = %r' % (o.M, o.f, o.e, Mk))
            # time of pericentre passage: M = n (t - T)  (t = 0: the particle is not in a simulation)
            if o.e > 1e-8 and abs(1 - o.e) > 1e-6:
                nT = abs(o.n) * (0.0 - o.T)
                if o.e < 1:
                    bad_T = angdiff(nT, o.M) > 64 * EPS * (1 + abs(nT)) * 8
                else:
                    bad_T = abs(nT - o.M) > 64 * EPS * (1 + abs(o.M)) * 8
                if bad_T:
                    add('orbit:relation:T', 'T=%r n=%r M=%r: n(t-T)=%r (e=%r)' % (o.T, o.n, o.M, nT, o.e))
            # pal
            pom = o.pomega
            if o.inc < math.pi / 2 and gt(abs(o.pal_h - o.e * math.sin(pom)), tola * (1 + o.e)) or o.inc < math.pi / 2 and gt(abs(o.pal_k - o.e * math.cos(pom)), tola * (1 + o.e)):
                add('orbit:relation:pal-hk', 'h=%r k=%r e=%r pomega=%r' % (o.pal_h, o.pal_k, o.e, pom))
            if o.inc < math.pi / 2 and (gt(abs(o.pal_ix - 2 * math.sin(o.inc / 2) * math.cos(o.Omega)), tola * 4) or gt(abs(o.pal_iy - 2 * math.sin(o.inc / 2) * math.sin(o.Omega)), tola * 4)):
                add('orbit:relation:pal-ixiy', 'ix=%r iy=%r inc=%r Omega=%r' % (o.pal_ix, o.pal_iy, o.inc, o.Omega))
            # Pal constructor: the particle rebuilt from (a, lambda, k, h, ix, iy) must be the particle the elements came from
            if o.inc < math.pi / 2 and 0 < o.e < 0.95 and o.a > 0:
                pp = clib.reb_particle_from_pal(c_double(G), prim, c_double(m), c_double(o.a), c_double(o.l), c_double(o.pal_k), c_double(o.pal_h), c_double(o.pal_ix), c_double(o.pal_iy))
                counters['pal_rebuilds'] = counters.get('pal_rebuilds', 0) + 1
                rr_ = math.sqrt((p.x - prim.x) ** 2 + (p.y - prim.y) ** 2 + (p.z - prim.z) ** 2)
                dd_ = math.sqrt((pp.x - p.x) ** 2 + (pp.y - p.y) ** 2 + (pp.z - p.z) ** 2)
                if gt(dd_, (1e-11 * cond * cancel + 64 * tola) * max(rr_, o.a)):
                    add('pal:rebuilt-particle-differs' + (':e-0.2-0.3' if 0.2 < o.e < 0.3 else ''), 'a=%r e=%r inc=%r: particle from pal elements is %.3e away (r=%r)' % (o.a, o.e, o.inc, dd_, rr_))
            # Pal pair proper: reb_tools_particle_to_pal and reb_particle_from_pal are each other's inverse for every inclination below pi
            # (lambda is Pal's own longitude there, not Orbit.l with its retrograde convention); the Orbit's pal_* members are the same quantities
            if 0 < o.e < 0.95 and o.a > 0 and o.inc < math.pi - 0.05:
                pa, pl, pk, ph, pix, piy = (c_double() for _ in range(6))
                clib.reb_tools_particle_to_pal(c_double(G), p, prim, byref(pa), byref(pl), byref(pk), byref(ph), byref(pix), byref(piy))
                counters['pal_pairs' + ('_retrograde' if o.inc > math.pi / 2 else '')] = counters.get('pal_pairs' + ('_retrograde' if o.inc > math.pi / 2 else ''), 0) + 1
                icond = 2.0 / (1.0 + math.cos(o.inc))
                tolp = (1e-11 * cond * cancel + 64 * tola) * icond
                for nm_, v_, w_ in (('k', pk.value, o.pal_k), ('h', ph.value, o.pal_h), ('ix', pix.value, o.pal_ix), ('iy', piy.value, o.pal_iy)):
                    if gt(abs(v_ - w_), tolp * (1 + abs(w_))):
                        add('pal:orbit-member-differs-from-particle_to_pal', '%s: %r vs Orbit.pal_%s %r (e=%r inc=%r)' % (nm_, v_, nm_, w_, o.e, o.inc))
                if gt(abs(pa.value - o.a), tolp * abs(o.a)):
                    add('pal:orbit-member-differs-from-particle_to_pal', 'a: %r vs %r (e=%r inc=%r)' % (pa.value, o.a, o.e, o.inc))
                if gt(abs(math.hypot(pk.value, ph.value) - o.e), tolp * (1 + o.e)):
                    add('pal:relation-hk-norm', 'sqrt(h^2+k^2)=%r e=%r inc=%r' % (math.hypot(pk.value, ph.value), o.e, o.inc))
                if gt(abs(math.hypot(pix.value, piy.value) - 2 * math.sin(o.inc / 2)), tolp * 2):
                    add('pal:relation-ixiy-norm', 'sqrt(ix^2+iy^2)=%r 2 sin(i/2)=%r' % (math.hypot(pix.value, piy.value), 2 * math.sin(o.inc / 2)))
                pp = clib.reb_particle_from_pal(c_double(G), prim, c_double(m), pa, pl, pk, ph, pix, piy)
                rr_ = math.sqrt((p.x - prim.x) ** 2 + (p.y - prim.y) ** 2 + (p.z - prim.z) ** 2)
                vv_ = math.sqrt((p.vx - prim.vx) ** 2 + (p.vy - prim.vy) ** 2 + (p.vz - prim.vz) ** 2)
                dd_ = math.sqrt((pp.x - p.x) ** 2 + (pp.y - p.y) ** 2 + (pp.z - p.z) ** 2)
                dv_ = math.sqrt((pp.vx - p.vx) ** 2 + (pp.vy - p.vy) ** 2 + (pp.vz - p.vz) ** 2)
                counters['max_pal_pair_err_x1e15'] = max(counters.get('max_pal_pair_err_x1e15', 0), int(dd_ / max(rr_, o.a) / icond * 1e15))
                if gt(dd_, tolp * max(rr_, o.a)) or gt(dv_, tolp * vv_ * (1 + o.e) / (1 - o.e)):
                    add('pal:particle_to_pal-from_pal-not-inverse' + (':e-0.2-0.3' if 0.2 < o.e < 0.3 else ''), 'a=%r e=%r inc=%r: %.3e away in position (r=%r), %.3e in velocity (v=%r)' % (o.a, o.e, o.inc, dd_, rr_, dv_, vv_))
            ev_ = [o.evec.x, o.evec.y, o.evec.z]
            hv_ = [o.hvec.x, o.hvec.y, o.hvec.z]
            if gt(abs(math.sqrt(sum(q * q for q in ev_)) - o.e), 16 * EPS * (1 + o.e)):
                add('orbit:relation:evec-norm', '|evec| %r e %r' % (math.sqrt(sum(q * q for q in ev_)), o.e))
            if gt(abs(sum(ev_[i] * hv_[i] for i in range(3))), 1024 * EPS * cond * cancel * o.h * (o.e + 1e-300) + 1e-300):
                add('orbit:relation:evec-perp-hvec', 'evec.hvec = %r (h=%r e=%r)' % (sum(ev_[i] * hv_[i] for i in range(3)), o.h, o.e))
            # rebuild from the returned elements
            if inc < math.pi - 1e-7:
                err3 = c_int(0)
                p2 = clib.reb_particle_from_orbit_err(c_double(G), prim, c_double(m), c_double(o.a), c_double(o.e), c_double(o.inc), c_double(o.Omega), c_double(o.omega), c_double(o.f), byref(err3))
                if err3.value:
                    add('orbit:returned-elements-rejected:err%d' % err3.value, 'a=%r e=%r inc=%r' % (o.a, o.e, o.inc))
                else:
                    v2 = [p2.x, p2.y, p2.z, p2.vx, p2.vy, p2.vz]
                    ex2 = max(abs(v2[i] - vals[i]) for i in range(3)) / (EPS * float(rs * cond ** 2 * big * cancel0 + ps) + 1e-300)
                    ev2 = max(abs(v2[i] - vals[i]) for i in range(3, 6)) / (EPS * float(vs * cond ** 2 * big * cancel0 + pvs) + 1e-300)
                    lim = 4096 + tola / EPS if (ecls not in ('zero', 'tiny') and icls in ('gen', 'retro')) else 3e9     # degenerate angles: sqrt(eps)-conditioned reconstruction
                    if gt(ex2, lim) or gt(ev2, lim):
                        add('orbit:roundtrip-cartesian', 'rebuild error %.3g/%.3g (eps scale cond^2) a=%r e=%r inc=%r Om=%r om=%r f=%r' % (ex2, ev2, a, e, inc, Om, om, f))
            cells.add(json.dumps(['elements', ecls, icls, bool(hyp)]))
    elif kind == 'anomaly':
        from rebound.tools import M_to_f as pyM_to_f, E_to_f as pyE_to_f, M_to_E as pyM_to_E
        for _ in range(case['n']):
            hyp = r.random() < 0.4
            e = r.choice([0.0, r.uniform(0, 0.99), 1 - 10 ** r.uniform(-6, -1)]) if not hyp else r.choice([1 + 10 ** r.uniform(-6, -1), r.uniform(1.1, 5), r.uniform(5, 100)])
            M = r.choice([0.0, math.pi, -math.pi, TWO_PI, -TWO_PI, 2 * TWO_PI, r.uniform(-TWO_PI, TWO_PI), r.uniform(-1e3, 1e3), r.choice([-1, 1]) * 10 ** r.uniform(-12, -2), r.uniform(-1e6, 1e6)])
            if hyp and abs(M) > 1e4:
                M = r.uniform(-1e3, 1e3)
            counters['anomaly_calls'] += 1
            for src, fE in (('C', lambda: clib.reb_M_to_E(c_double(e), c_double(M))), ('py', lambda: pyM_to_E(e, M))):
                try:
                    E = fE()
                except Exception as ex:
                    add('anomaly:%s:M_to_E-raises' % src, 'e=%r M=%r: %s' % (e, M, ex))
                    continue
                if not math.isfinite(E):
                    add('anomaly:%s:M_to_E-not-finite:%s' % (src, 'hyperbolic-M=0' if (hyp and M == 0) else 'hyperbolic' if hyp else 'elliptic'), 'e=%r M=%r -> %r' % (e, M, E))
                    continue
                cond = 1 / abs(1 - e)
                if not hyp:
                    res = angdiff(E - e * math.sin(E), M)
                    if gt(res, 64 * EPS * (1 + abs(M)) * max(1.0, cond ** 0.5) + 64 * EPS * abs(E)):
                        add('anomaly:%s:kepler-residual:elliptic' % src, 'e=%r M=%r E=%r residual %r' % (e, M, E, res))
                else:
                    res = abs(e * math.sinh(E) - E - M)
                    if gt(res, 256 * EPS * (1 + abs(M) + e * abs(math.sinh(E)))):
                        add('anomaly:%s:kepler-residual:hyperbolic' % src, 'e=%r M=%r E=%r residual %r' % (e, M, E, res))
                # E -> f half-angle relation
                f1 = clib.reb_E_to_f(c_double(e), c_double(E)) if src == 'C' else pyE_to_f(e, E)
                if not hyp:
                    fw = 2 * math.atan2(math.sqrt(1 + e) * math.sin(E / 2), math.sqrt(1 - e) * math.cos(E / 2))
                else:
                    fw = 2 * math.atan(math.sqrt((e + 1) / (e - 1)) * math.tanh(E / 2))
                if not math.isfinite(f1) or gt(angdiff(f1, fw), 1024 * EPS * (1 + abs(E)) * cond ** 0.5):
                    add('anomaly:%s:E_to_f' % src, 'e=%r E=%r f=%r expected %r' % (e, E, f1, fw))
                f2 = clib.reb_M_to_f(c_double(e), c_double(M)) if src == 'C' else pyM_to_f(e, M)
                if not math.isfinite(f2) or gt(angdiff(f2, f1), 64 * EPS * (1 + abs(f1))):
                    add('anomaly:%s:M_to_f-differs-from-E_to_f(M_to_E)' % src, 'e=%r M=%r: %r vs %r' % (e, M, f2, f1))
            cells.add(json.dumps(['anomaly', bool(hyp), M in (0.0, math.pi, -math.pi, TWO_PI, -TWO_PI)]))
    elif kind == 'frontend':
        keys = ['a', 'P', 'e', 'inc', 'Omega', 'omega', 'pomega', 'f', 'M', 'E', 'l', 'theta', 'T', 'h', 'k', 'ix', 'iy', 'x', 'y', 'vx', 'vz', 'm']
        for _ in range(case['n']):
            sim = rebound.Simulation()
            sim.G = r.choice([1.0, 1.0, 39.478, 6.674e-11])
            sim.add(m=10 ** r.uniform(-1, 1))
            if r.random() < 0.4:
                sim.add(m=1e-3, a=0.3)
            sim.t = r.choice([0.0, 0.0, 12.5])
            nk = r.choice([1, 2, 2, 3, 3, 4, 5, 6])
            ks = r.sample(keys, nk)
            if r.random() < 0.7 and 'a' not in ks and 'P' not in ks:
                ks.append(r.choice(['a', 'a', 'P']))
            hyp = r.random() < 0.2
            kw = {}
            for k_ in ks:
                if k_ == 'a':
                    kw[k_] = (-1 if hyp else 1) * 10 ** r.uniform(-2, 2)
                elif k_ == 'P':
                    kw[k_] = 10 ** r.uniform(-2, 2)
                elif k_ == 'e':
                    kw[k_] = r.choice([0.0, r.uniform(0, 0.95), 1.0, -0.1, r.uniform(1.1, 3)]) if not hyp else r.choice([r.uniform(1.1, 3), 0.5, 1.0])
                elif k_ == 'inc':
                    kw[k_] = r.choice([0.0, r.uniform(0, math.pi), math.pi])
                elif k_ in ('h', 'k'):
                    kw[k_] = r.uniform(-0.5, 0.5)
                elif k_ in ('ix', 'iy'):
                    kw[k_] = r.choice([r.uniform(-1, 1), 1.9])
                elif k_ == 'm':
                    kw[k_] = 10 ** r.uniform(-8, -2)
                elif k_ == 'T':
                    kw[k_] = r.uniform(-5, 5)
                elif k_ in ('x', 'y', 'vx', 'vz'):
                    kw[k_] = r.uniform(-2, 2)
                elif k_ in ('M', 'E') and hyp:
                    kw[k_] = r.choice([0.0, r.uniform(-3, 3)])
                elif k_ == 'f' and hyp:
                    kw[k_] = r.uniform(-1, 1)
                else:
                    kw[k_] = r.choice([0.0, r.uniform(-7, 7)])
            counters['frontend_pairs'] += 1
            # python
            try:
                pp = Particle(simulation=sim, **kw)
                py = [pp.x, pp.y, pp.z, pp.vx, pp.vy, pp.vz, pp.m]
                perr = None
            except (ValueError, RuntimeError, TypeError, ZeroDivisionError, OverflowError) as ex:
                py, perr = None, '%s: %s' % (type(ex).__name__, ex)
            # C
            names = list(kw)
            fmt = ' '.join(names).encode()
            pc = clib.reb_particle_from_fmt(byref(sim), c_char_p(fmt), *[c_double(kw[q]) for q in names])
            cv = [pc.x, pc.y, pc.z, pc.vx, pc.vy, pc.vz, pc.m]
            c_rej = all(q != q for q in cv[:6]) and cv[6] != cv[6]
            c_nan_noerr = (not c_rej) and any(not math.isfinite(q) for q in cv)
            if py is not None and any(not math.isfinite(q) for q in py):
                tag = 'hyperbolic-M=0' if (kw.get('e', 0) > 1 and (kw.get('M') == 0.0 or kw.get('l') is not None or kw.get('T') is not None)) else 'other'
                add('frontend:python-returns-nan-particle-without-error:%s' % tag, 'kwargs %r -> %r' % (kw, py))
                continue
            if c_nan_noerr:
                add('frontend:C-returns-nan-particle-without-error', 'fmt %r values %r -> %r' % (fmt, [kw[q] for q in names], cv))
                continue
            if (py is None) != c_rej:
                which = 'python-rejects-C-accepts' if py is None else 'python-accepts-C-rejects'
                add('frontend:accept-reject-disagree:%s:%s' % (which, '+'.join(sorted(names))[:60]), 'kwargs %r: python %s, C %s' % (kw, perr or 'accepted', 'rejected' if c_rej else 'accepted %r' % cv))
                continue
            if py is None:
                counters['frontend_rejected_both'] += 1
                cells.add(json.dumps(['frontend', 'rejected', len(names) > 3]))
                continue
            counters['frontend_accepted_both'] += 1
            from vf import rt
            ul = max(rt.ulp_diff(py[i], cv[i]) if (py[i] == py[i] and py[i] != cv[i]) else 0 for i in range(7))
            lim = 4 if ('P' in kw or 'T' in kw) else 0
            if ul > lim:
                rn = math.sqrt(sum(q * q for q in py[:3])) + 1e-300
                vn = math.sqrt(sum(q * q for q in py[3:6])) + 1e-300
                relmax = max(max(abs(py[i] - cv[i]) for i in range(3)) / rn, max(abs(py[i] - cv[i]) for i in range(3, 6)) / vn)
                # number of orbits between T and now: from P when given, else from the mean motion implied by the returned state
                Pest = abs(kw['P']) if 'P' in kw else 1e300
                if 'P' not in kw and 'a' in kw and kw['a'] != 0:
                    den = 1.0 / rn - 1.0 / (2 * kw['a'])
                    mu = abs(0.5 * vn * vn / den) if den != 0 else 0.0
                    nmean = max(math.sqrt(mu / abs(kw['a']) ** 3) if mu > 0 else 0.0, vn / rn)
                    Pest = 2 * math.pi / nmean if nmean > 0 else 1e300
                if lim and relmax <= 64 * EPS * (1 + abs(kw.get('T', 0) - sim.t) / max(Pest, 1e-300) * 10 + 1e3):
                    # conversion of P / T amplifies a 1-ulp difference in a or M through the orbit: not bit-identical but rounding level
                    counters['frontend_P_or_T_rounding_only'] = counters.get('frontend_P_or_T_rounding_only', 0) + 1
                else:
                    add('frontend:particles-differ:%s' % '+'.join(sorted(names))[:60], 'kwargs %r: python %r C %r (%d ulp)' % (kw, py, cv, ul))
            cells.add(json.dumps(['frontend', 'accepted', 'pal' if any(q in kw for q in ('h', 'k', 'ix', 'iy')) else 'cart' if any(q in kw for q in ('x', 'y', 'vx', 'vz')) else 'orbital', 'P' in kw or 'T' in kw]))
    for v in viol:
        v['case_seed'] = case['seed']
    return dict(violations=viol, cells=[json.loads(c) for c in cells], counters=counters, sample=dict(kind=kind, seed=case['seed']) if r.random() < 0.03 else None)


def main(tier, seed):
    V = core.Verdict(PROPERTY, tier, seed)
    r = core.rng(PROPERTY, seed)
    nb = 480 if tier == "quick" else 6000
    cases = []
    for i in range(nb):
        cases.append(dict(kind='elements', seed=r.getrandbits(40), n=120))
        cases.append(dict(kind='anomaly', seed=r.getrandbits(40), n=600))
        cases.append(dict(kind='frontend', seed=r.getrandbits(40), n=250))
    res = core.run_cases('checks.c11_orbits', 'rel', cases, timeout_case=600)
    for c, rr in zip(cases, res):
        V.absorb(c, rr)
    inc = []
    for k in ('forward', 'roundtrips', 'relations', 'anomaly_calls', 'frontend_accepted_both', 'frontend_rejected_both', 'planar', 'circular', 'retrograde', 'hyperbolic'):
        if V.counters.get(k, 0) == 0:
            inc.append('monitor counter %s is zero' % k)
    return V.finish(
        rule="random element sets stratified over the code's thresholds (e: 0, 1e-12..1e-8.5, low, mid, 1-1e-6..; hyperbolic; inc: 0, tiny, general, retrograde, pi-tiny, pi; angles incl. 0, multiples of 2pi, "
             "large arguments; G over 20 decades; moving massive primary), anomaly arguments incl. exact 0/pi/2pi, and random legal/illegal keyword subsets for the two front ends; "
             "distinct = (monitor, eccentricity class, inclination class, bound?) / (anomaly, bound?, exact special M) / (frontend, outcome, element family, P-or-T)",
        assumptions=["50-digit mpmath element->Cartesian map and invariants", "tolerances are eps-multiples with condition factors 1/|1-e| (and sqrt(eps) where an angle is defined through acos near 0 or pi)"],
        floor=25, inconclusive_if=inc)


def replay(path):
    return 1
