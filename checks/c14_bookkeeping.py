"""C14 - particle bookkeeping under any add/remove/hash history (history + executable list model).

Every op of a generated history is applied to the real simulation (C API via ctypes, or the Python
container) and to a 40-line list model; after *every* op N, the id sequence (ids are carried in the mass
field), N_active (documented cases), and hash lookups (live, removed and never-used hashes) are compared.
Invalid requests must fail and leave the persisted state (sabin) unchanged.  Runs on the release and the
ASan+UBSan builds (a sanitizer report kills the worker = observation "process-death").

String names: reb_hash / rebound.hash (MurmurHash3 x86_32, seed 1983; the values are persisted in archives) are compared with an
independent implementation written from the algorithm's published definition, for every length 0..70 and random printable
strings, and named particles go through the same container operations (add(hash="name"), particles["name"], remove(hash="name")).
"""
import json, random, sys
from vf import core

PROPERTY = "C14"


# ---------------------------------------------------------------- model
class Model:
    def __init__(self):
        self.ps = []            # list of [id, hash]
        self.N_active = -1
        self.N_active_known = True

    def add(self, pid, h):
        self.ps.append([pid, h])

    def valid_index(self, i):
        return 0 <= i < len(self.ps)

    def remove(self, i, keep_sorted):
        n_before = len(self.ps)
        if keep_sorted:
            del self.ps[i]
            if n_before > 1:
                if self.N_active != -1 and i < self.N_active:
                    self.N_active -= 1
            else:
                self.N_active_known = False     # not documented what happens when the last particle goes
        else:
            self.ps[i] = self.ps[-1]
            self.ps.pop()
            self.N_active_known = False         # unsorted removal: N_active adjustment is not documented

    def remove_all(self):
        self.ps = []
        self.N_active = -1
        self.N_active_known = True

    def has_hash(self, h):
        return any(p[1] == h for p in self.ps)

    def index_candidates(self, h):
        return [i for i, p in enumerate(self.ps) if p[1] == h]


# ---------------------------------------------------------------- history generator (online: uses the run-time model)
class Gen:
    def __init__(self, case):
        self.r = random.Random(case['hseed'])
        self.case = case
        self.next_id = 1
        self.used = []
        self.burst = 0

    def new_hash(self):
        r, dup = self.r, self.case['dups']
        k = r.random()
        if dup and k < 0.12:
            if 0 not in self.used:
                self.used.append(0)         # the default hash of every unnamed particle is a hash like any other: looked up and removed by value
            return 0
        if dup and k < 0.3 and self.used:
            return r.choice(self.used)
        h = r.getrandbits(32) or 1
        if dup and k > 0.9:
            h = r.choice([1, 2, 0xffffffff, 0x80000000, 0x7fffffff])
        if not dup:
            while h in self.used:
                h = r.getrandbits(32) or 1
        self.used.append(h)
        return h

    def next_op(self, m):
        r, case = self.r, self.case
        N = len(m.ps)
        x = r.random()
        if self.burst > 0:
            x = 0.0
            self.burst -= 1
        elif getattr(self, 'after_burst_remove', False) and N > 1:
            self.after_burst_remove = False
            if case['mode'] != 'tree':
                return dict(op='remove_index', i=r.randrange(N), keep_sorted=1, valid=True)
        elif r.random() < 0.01:
            self.burst = r.choice([30, 130, 260])       # cross the 128/256/512 growth boundaries
        elif r.random() < 0.02 and N % 128 != 0 and N < 400:
            self.burst = 128 - N % 128                   # stop exactly ON a boundary: the array is full when the next removal comes
            self.after_burst_remove = True
        if x < 0.34 or (N == 0 and x < 0.8):
            op = dict(op='add', id=self.next_id, hash=self.new_hash())
            self.next_id += 1
            return op
        if x < 0.52:
            ks = r.random() < 0.55
            if N == 0 or r.random() < 0.18:
                i = r.choice([-1, N, N + 1, N + 7, -N - 1, 2 ** 31 - 1, -2 ** 31])
                return dict(op='remove_index', i=i, keep_sorted=int(ks), valid=False)
            if case['mode'] == 'tree' and ks and N == 1:
                ks = False      # last particle + tree + sorted: outcome is not specified anywhere; not generated
            if case['mode'] == 'tree' and ks:
                return dict(op='remove_index', i=r.randrange(N), keep_sorted=1, valid=False, why='sorted removal with a tree')
            return dict(op='remove_index', i=r.randrange(N), keep_sorted=int(ks), valid=True)
        if x < 0.66:
            ks = r.random() < 0.55
            if r.random() < 0.2 or not self.used:
                h = r.getrandbits(32) | 1
            else:
                h = r.choice(self.used)
            if case['mode'] == 'tree':
                ks = False
            return dict(op='remove_hash', hash=h, keep_sorted=int(ks), valid=m.has_hash(h))
        if x < 0.76 and N > 0:
            return dict(op='set_hash', i=r.randrange(N), hash=self.new_hash())
        if x < 0.93:
            if self.used and r.random() < 0.8:
                h = r.choice(self.used)
            else:
                h = r.getrandbits(32)
            return dict(op='lookup', hash=h)
        if x < 0.945:
            return dict(op='remove_all')
        if x < 0.96 and N > 0:
            # the history continues on a copy / a restored snapshot: storage is then allocated for exactly N particles, so the very
            # next operation works on a full array (growth on add, no spare slot behind the last particle on removal)
            return dict(op='continue_on', how=r.choice(['copy', 'stream']), then_fill=False)
        if x < 0.97 and case['mode'] in ('mercurius', 'trace', 'plain') and 2 <= N <= 40 and m.N_active_known and m.N_active in (-1, N):
            return dict(op='steps', n=r.choice([1, 2]))
        if N > 0:
            return dict(op='set_N_active', v=r.choice([-1, 0, 1, N, max(0, N - 1), r.randrange(N + 1)]))
        return dict(op='lookup', hash=r.getrandbits(32))


# ---------------------------------------------------------------- independent MurmurHash3 x86_32
def murmur3_32(data, seed=1983):
    M = 0xffffffff
    h = seed
    n = len(data)
    for i in range(0, n - n % 4, 4):
        k = data[i] | data[i + 1] << 8 | data[i + 2] << 16 | data[i + 3] << 24
        k = k * 0xcc9e2d51 & M
        k = (k << 15 | k >> 17) & M
        k = k * 0x1b873593 & M
        h ^= k
        h = (h << 13 | h >> 19) & M
        h = (h * 5 + 0xe6546b64) & M
    k = 0
    t = data[n - n % 4:]
    for j in range(len(t) - 1, -1, -1):
        k ^= t[j] << (8 * j)
    if t:
        k = k * 0xcc9e2d51 & M
        k = (k << 15 | k >> 17) & M
        k = k * 0x1b873593 & M
        h ^= k
    h ^= n
    h ^= h >> 16
    h = h * 0x85ebca6b & M
    h ^= h >> 13
    h = h * 0xc2b2ae35 & M
    h ^= h >> 16
    return h


def run_strhash(case):
    """string -> hash function against the independent implementation, and named particles through the container."""
    import warnings
    from ctypes import c_uint32, c_char_p, byref, POINTER
    import rebound
    from rebound import clibrebound as clib
    warnings.simplefilter('ignore')
    r = random.Random(case['hseed'])
    viol = []
    counters = dict(strhash_values=0, strhash_lengths=0, named_ops=0, named_lookups=0)
    clib.reb_hash.restype = c_uint32
    alphabet = [chr(c) for c in range(32, 127)]
    names = []
    for n in range(0, 71):
        counters['strhash_lengths'] += 1
        for rep in range(3):
            if rep == 0:
                s = ''.join(r.choice('abcdefghijklmnopqrstuvwxyz') for _ in range(n))
            elif rep == 1:
                s = ''.join(r.choice(alphabet) for _ in range(n))
            else:
                s = ''.join(r.choice('~}|{zyx') for _ in range(n))           # high code points in every tail position
            want = murmur3_32(s.encode('ascii'))
            got_c = clib.reb_hash(c_char_p(s.encode('ascii')))
            got_py = rebound.hash(s).value
            counters['strhash_values'] += 1
            if got_c != want or got_py != want:
                viol.append(dict(mech='strhash:differs-from-murmur3:len%%4=%d' % (n % 4), msg='reb_hash(%r)=%d rebound.hash=%d murmur3_32=%d' % (s, got_c, got_py, want)))
                break
            if n > 0:
                names.append(s)
        if viol:
            break
    # documented anchor values (docs: rebound.hash("earth") etc. are stable across versions because archives persist them)
    if not viol:
        sim = rebound.Simulation()
        live = {}
        r.shuffle(names)
        nxt = 1
        for k in range(case['nops']):
            x = r.random()
            counters['named_ops'] += 1
            if x < 0.45 or not live:
                nm = names[r.randrange(len(names))]
                if nm in live:
                    continue
                sim.add(m=float(nxt), x=float(nxt), hash=nm)
                live[nm] = nxt
                nxt += 1
            elif x < 0.7:
                nm = r.choice(sorted(live))
                ks = r.random() < 0.5
                try:
                    sim.remove(hash=nm, keep_sorted=ks)
                except Exception as e:
                    viol.append(dict(mech='remove:by-name-fails-for-existing-particle', msg='remove(hash=%r): %s: %s (model id %r)' % (nm, type(e).__name__, e, live[nm])))
                    break
                del live[nm]
            else:
                nm = r.choice(names)
                counters['named_lookups'] += 1
                try:
                    p = sim.particles[nm]
                    found = int(p.m)
                except rebound.ParticleNotFound:
                    found = None
                if found != live.get(nm):
                    viol.append(dict(mech='lookup:by-name', msg='particles[%r] -> id %r, model %r' % (nm, found, live.get(nm))))
                    break
            if viol:
                break
            if sim.N != len(live) or sorted(int(p.m) for p in sim.particles) != sorted(live.values()):
                viol.append(dict(mech='bookkeeping:named-particles', msg='after %d named ops: ids %r model %r' % (k, sorted(int(p.m) for p in sim.particles)[:30], sorted(live.values())[:30])))
                break
            for nm, i in list(live.items())[:3]:
                try:
                    hv = sim.particles[nm].hash.value
                except rebound.ParticleNotFound:
                    viol.append(dict(mech='lookup:by-name', msg='particles[%r] not found, model id %r' % (nm, i)))
                    break
                if hv != murmur3_32(nm.encode('ascii')):
                    viol.append(dict(mech='strhash:stored-hash-differs', msg='particle named %r carries %d' % (nm, hv)))
                    break
    return dict(violations=viol, cell=['strhash', int(counters['named_lookups'] > 0)], counters=counters, sample=dict(case=case))


# ---------------------------------------------------------------- runner (worker side)
def run_case(case):
    if case.get('kind') == 'strhash':
        return run_strhash(case)
    import ctypes
    from ctypes import byref, c_uint32, c_int, POINTER
    import warnings
    import rebound
    from rebound import clibrebound as clib
    from vf import rt
    warnings.simplefilter('ignore')

    gen = Gen(case)
    ops = []
    api = case['api']
    sim = rebound.Simulation()
    sim.rand_seed = 1
    if case['mode'] == 'mercurius':
        sim.integrator = 'mercurius'
    elif case['mode'] == 'trace':
        sim.integrator = 'trace'
    elif case['mode'] == 'tree':
        sim.configure_box(1.e7)
        sim.gravity = 'tree'
    sim.dt = 1e-9
    clib.reb_simulation_remove_particle.restype = c_int
    clib.reb_simulation_remove_particle_by_hash.restype = c_int
    clib.reb_simulation_particle_by_hash.restype = POINTER(rebound.Particle)
    m = Model()
    held = [None]
    viol = []
    counters = dict(ops=0, invalid_ops=0, lookups=0, lookups_hit=0, lookups_miss=0, growth_crossings=0,
                    sorted_removals=0, unsorted_removals=0, dup_hash_ops=0, zero_hash_lookups=0)
    maxN = 0

    def drain():
        """returns list of messages, never raises"""
        msgs = []
        buf = ctypes.create_string_buffer(4096)
        clib.reb_simulation_get_next_message.restype = c_int
        while clib.reb_simulation_get_next_message(byref(sim), buf):
            msgs.append(buf.value.decode('ascii', 'replace'))
        return msgs

    def ids():
        return [int(sim.particles[i].m) for i in range(sim.N)]

    def lookup_real(h):
        if api == 'py':
            try:
                p = sim.particles[c_uint32(h)]
                return p
            except rebound.ParticleNotFound:
                return None
        ptr = clib.reb_simulation_particle_by_hash(byref(sim), c_uint32(h))
        return ptr.contents if ptr else None

    def check_state(k, op, probe_hashes):
        if sim.N != len(m.ps):
            viol.append(dict(mech='bookkeeping:N-mismatch', msg='after op %d %r: N=%d model=%d' % (k, op, sim.N, len(m.ps))))
            return False
        got = ids()
        want = [p[0] for p in m.ps]
        if got != want:
            viol.append(dict(mech='bookkeeping:contents-or-order', msg='after op %d %r: ids=%r model=%r' % (k, op, got[:40], want[:40])))
            return False
        hs = [sim.particles[i].hash.value for i in range(sim.N)]
        if hs != [p[1] for p in m.ps]:
            viol.append(dict(mech='bookkeeping:hash-field', msg='after op %d %r: hashes differ' % (k, op)))
            return False
        if m.N_active_known and sim.N_active != m.N_active:
            viol.append(dict(mech='bookkeeping:N_active', msg='after op %d %r: N_active=%d model=%d (N=%d)' % (k, op, sim.N_active, m.N_active, sim.N)))
            return False
        for h in probe_hashes:
            p = lookup_real(h)
            counters['lookups'] += 1
            if h == 0:
                counters['zero_hash_lookups'] += 1
            if m.has_hash(h):
                counters['lookups_hit'] += 1
                if p is None:
                    viol.append(dict(mech='lookup:misses-existing-hash', msg='after op %d %r: hash %d exists (model idx %r) but lookup returned nothing' % (k, op, h, m.index_candidates(h))))
                    return False
                if p.hash.value != h:
                    viol.append(dict(mech='lookup:returns-wrong-hash', msg='after op %d %r: lookup(%d) returned particle with hash %d' % (k, op, h, p.hash.value)))
                    return False
                if int(p.m) not in [m.ps[i][0] for i in m.index_candidates(h)]:
                    viol.append(dict(mech='lookup:returns-foreign-particle', msg='after op %d %r: lookup(%d) returned id %d' % (k, op, h, int(p.m))))
                    return False
            else:
                counters['lookups_miss'] += 1
                if p is not None:
                    viol.append(dict(mech='lookup:finds-nonexistent-hash', msg='after op %d %r: hash %d not in model but lookup returned id %r hash %r' % (k, op, h, p.m, p.hash.value)))
                    return False
        return True

    removed_hashes = []
    rr = random.Random(case['hseed'] ^ 0x5555)
    for k in range(case['nops']):
        op = gen.next_op(m)
        ops.append(op)
        counters['ops'] += 1
        o = op['op']
        probes = []
        if o == 'add':
            p = rebound.Particle(m=float(op['id']), x=float(op['id']), y=float(op['id'] % 7), vy=0.1, hash=op['hash'])
            errs = []
            if api == 'py':
                try:
                    sim.add(p)
                except RuntimeError as e:
                    errs = [str(e)]
                    drain()
            else:
                clib.reb_simulation_add(byref(sim), p)
                errs = [x for x in drain() if x.startswith('e')]
            if errs:
                mech = 'add:valid-add-reported-error'
                if case['mode'] == 'tree' and any(q.get('op') in ('remove_index', 'remove_hash') and q.get('valid') for q in ops[-3:-1]) and len(m.ps) == 0:
                    mech = 'add:stale-tree-after-last-particle-removed'
                viol.append(dict(mech=mech, msg='op %d %r: %r' % (k, op, errs)))
                break
            nb = sim.N
            if nb in (129, 257, 513):
                counters['growth_crossings'] += 1
            m.add(op['id'], op['hash'])
            probes = [op['hash']]
        elif o == 'set_hash':
            old = m.ps[op['i']][1]
            if api == 'py':
                sim.particles[op['i']].hash = op['hash']
            else:
                sim.particles[op['i']].hash = c_uint32(op['hash'])
            m.ps[op['i']][1] = op['hash']
            probes = [op['hash'], old]
        elif o == 'lookup':
            probes = [op['hash']]
        elif o == 'steps':
            sim.steps(op['n'])
            drain()
            counters['steps_ops'] = counters.get('steps_ops', 0) + 1
        elif o == 'set_N_active':
            sim.N_active = op['v']
            m.N_active = op['v']
            m.N_active_known = True
        elif o == 'continue_on':
            if op['how'] == 'copy':
                sim2 = sim.copy()
            else:
                sim2 = rebound.Simulation(rt.save_bytes(sim))
            sim = sim2
            held[0] = None          # a container of the previous simulation object stays with that object
            counters['continued_on_copy_or_snapshot'] = counters.get('continued_on_copy_or_snapshot', 0) + 1
            probes = [p[1] for p in m.ps][:3]
        elif o == 'remove_all':
            if api == 'py':
                del sim.particles
            else:
                clib.reb_simulation_remove_all_particles(byref(sim))
                drain()
            removed_hashes += [p[1] for p in m.ps][:5]
            m.remove_all()
        elif o in ('remove_index', 'remove_hash'):
            ks = op['keep_sorted']
            if case['force_sorted']:
                ks_eff = 1
            else:
                ks_eff = ks
            valid = op['valid']
            if not valid:
                counters['invalid_ops'] += 1
                before = rt.digest(rt.sabin_sim(sim))
            if ks_eff:
                counters['sorted_removals'] += valid
            else:
                counters['unsorted_removals'] += valid
            raised = None
            ret = None
            if api == 'py':
                try:
                    if o == 'remove_index':
                        sim.remove(index=op['i'], keep_sorted=bool(ks))
                    else:
                        sim.remove(hash=c_uint32(op['hash']) if rr.random() < 0.5 else int(op['hash']), keep_sorted=bool(ks))
                except RuntimeError as e:
                    raised = str(e)
                    drain()
                ok = raised is None
            else:
                if o == 'remove_index':
                    ret = clib.reb_simulation_remove_particle(byref(sim), c_int(op['i']), c_int(ks))
                else:
                    ret = clib.reb_simulation_remove_particle_by_hash(byref(sim), c_uint32(op['hash']), c_int(ks))
                msgs = drain()
                ok = (ret == 1)
            if case['mode'] == 'tree' and valid and ok:
                sim.update_tree()       # removal is deferred to the tree update in tree mode
                drain()
            if valid:
                if not ok:
                    viol.append(dict(mech='remove:valid-request-failed', msg='op %d %r failed (ret=%r, raised=%r), N=%d' % (k, op, ret, raised, sim.N)))
                    break
                if o == 'remove_index':
                    removed_hashes.append(m.ps[op['i']][1])
                    m.remove(op['i'], ks_eff)
                else:
                    cands = m.index_candidates(op['hash'])
                    if len(cands) > 1:
                        counters['dup_hash_ops'] += 1
                        # any carrier may be removed: identify which by observation, model follows
                        got = ids()
                        done = False
                        for c in cands:
                            mm = Model()
                            mm.ps = [list(p) for p in m.ps]
                            mm.N_active = m.N_active
                            mm.N_active_known = m.N_active_known
                            mm.remove(c, ks_eff)
                            if [p[0] for p in mm.ps] == got or (case['mode'] == 'tree' and sorted(p[0] for p in mm.ps) == sorted(got)):
                                m = mm
                                done = True
                                break
                        if not done:
                            viol.append(dict(mech='remove:dup-hash-removed-non-carrier', msg='op %d %r: ids now %r; carriers %r' % (k, op, got[:40], cands)))
                            break
                    else:
                        removed_hashes.append(op['hash'])
                        m.remove(cands[0], ks_eff)
                    probes = [op['hash']]
            else:
                if ok:
                    mech = 'remove:invalid-request-succeeded'
                    if o == 'remove_index' and len(m.ps) == 1 and not (0 <= op['i'] < 1):
                        mech = 'remove:invalid-index-accepted-when-N==1'
                    viol.append(dict(mech=mech, msg='op %d %r reported success (ret=%r) with N_model=%d; N now %d' % (k, op, ret, len(m.ps), sim.N)))
                    break
                after = rt.digest(rt.sabin_sim(sim))
                if after != before:
                    viol.append(dict(mech='remove:sorted-with-tree-mutates-then-fails' if op.get('why') else 'remove:invalid-request-mutated-state', msg='op %d %r failed but persisted state changed' % (k, op)))
                    break
        if case['mode'] == 'tree' and o in ('remove_index', 'remove_hash') and op['valid'] and not viol:
            got = ids()
            if sorted(got) != sorted(p[0] for p in m.ps):
                viol.append(dict(mech='bookkeeping:tree-deferred-removal', msg='after op %d %r + update_tree: ids=%r model=%r' % (k, op, sorted(got)[:40], sorted(p[0] for p in m.ps)[:40])))
                break
            byid = dict((p[0], p) for p in m.ps)
            m.ps = [byid[i] for i in got]
            counters['tree_removals'] = counters.get('tree_removals', 0) + 1
        # probes: the op's own hashes + a sample of live / removed / never-used
        live = [p[1] for p in m.ps]
        if live:
            probes += [rr.choice(live) for _ in range(2)]
        if removed_hashes:
            probes.append(rr.choice(removed_hashes[-20:]))
        probes.append(rr.getrandbits(32))
        if case['dups']:
            probes.append(0)
        maxN = max(maxN, sim.N)
        if not check_state(k, op, probes):
            break
        if api == 'py' and case['mode'] != 'tree' and rr.random() < 0.03 and 0 < sim.N < 300:
            # a container object that is kept across a reallocation of the particle storage: look at it, grow the array past its
            # allocation, shrink back to the same N without touching the container, look again
            if held[0] is None or rr.random() < 0.3:
                held[0] = sim.particles
            hp = held[0]
            N0 = sim.N
            first = [int(p.m) for p in hp]
            grow = 129 + rr.randrange(200)
            for j_ in range(grow):
                sim.add(m=float(10 ** 7 + j_), x=float(j_))
            for j_ in range(grow):
                sim.remove(sim.N - 1, keep_sorted=bool(rr.random() < 0.5))
            drain()
            counters['held_container_roundtrips'] = counters.get('held_container_roundtrips', 0) + 1
            try:
                second = [int(p.m) for p in hp]
                lastv = int(hp[-1].m)
                sl = [int(p.m) for p in hp[0:N0:2]]
            except Exception as e_:
                second, lastv, sl = repr(e_), None, None
            want = [int(p.m) for p in sim.particles]       # a fresh container (itself compared with the model after every op)
            if sim.N != N0 or sorted(want) != sorted(p[0] for p in m.ps) or first != want or second != want or lastv != want[-1] or sl != want[0:N0:2]:
                viol.append(dict(mech='container:held-object-stale-after-reallocation', msg='after op %d: a Particles object kept across add x%d / remove x%d shows %r..., the simulation holds %r...' % (k, grow, grow, str(second)[:80], want[:6])))
                break
        if api == 'py' and rr.random() < 0.05 and sim.N > 0:
            # container semantics: negative index, slice, len, iteration
            N = sim.N
            ps = sim.particles
            if int(ps[-1].m) != m.ps[-1][0] or len(ps) != N or [int(p.m) for p in ps[0:N:3]] != [p[0] for p in m.ps[0:N:3]] \
                    or [int(p.m) for p in ps] != [p[0] for p in m.ps]:
                viol.append(dict(mech='container:index-slice-iter', msg='after op %d: container view disagrees with model' % k))
                break
            for bad in (N, -N - 1, N + 100):
                try:
                    ps[bad]
                    viol.append(dict(mech='container:out-of-range-index-accepted', msg='particles[%d] with N=%d did not raise' % (bad, N)))
                except AttributeError:
                    pass
                except IndexError:
                    pass
    # final: a full probe of every hash ever used
    if not viol:
        allh = set(p[1] for p in m.ps) | set(removed_hashes)
        check_state(len(ops), 'final', sorted(allh)[:400])
    if viol:
        for v in viol:
            v['ops_prefix'] = ops[:k + 1][-40:]
    cell = [api, case['mode'], case['variant'], int(case['dups']), min(maxN // 128, 4),
            int(counters['unsorted_removals'] > 0), int(counters['invalid_ops'] > 0)]
    return dict(violations=viol, cell=cell if counters['ops'] >= 20 else None, counters=counters,
                sample=dict(case=case, first_ops=ops[:12]))


def crash_mech(case, res):
    err = res['crash'].get('stderr', '')
    if 'AddressSanitizer' in err:
        import re
        mm = re.search(r'AddressSanitizer: ([a-z\-]+)', err)
        fn = re.search(r'#\d+ 0x[0-9a-f]+ in (reb_\w+)', err)
        return 'sanitizer:%s:%s' % (mm.group(1) if mm else '?', fn.group(1) if fn else '?')
    if 'runtime error' in err:
        return 'sanitizer:ubsan'
    return 'process-death:signal%s' % res['crash'].get('signal')


def plan(tier, seed):
    r = core.rng(PROPERTY, seed)
    nh, nops = (260, 150) if tier == 'quick' else (6000, 400)
    plans = {'rel': [], 'asan': []}
    for i in range(nh):
        variant = 'asan' if i % 3 == 0 else 'rel'
        mode = r.choice(['plain', 'plain', 'plain', 'mercurius', 'trace', 'tree'])
        case = dict(hseed=r.getrandbits(48), nops=nops if r.random() < 0.8 else nops * 4, api=r.choice(['c', 'py']),
                    mode=mode, dups=r.random() < 0.5, force_sorted=mode in ('mercurius', 'trace'), variant=variant)
        plans[variant].append(case)
    for i in range(4 if tier == 'quick' else 40):
        plans['asan' if i % 2 else 'rel'].append(dict(kind='strhash', hseed=r.getrandbits(48), nops=300 if tier == 'quick' else 1500))
    return plans


def main(tier, seed):
    V = core.Verdict(PROPERTY, tier, seed)
    for variant, cases in plan(tier, seed).items():
        res = core.run_cases('checks.c14_bookkeeping', variant, cases, timeout_case=300)
        for c, r in zip(cases, res):
            V.absorb(c, r, crash_mech)
    inc = []
    for k in ('lookups_hit', 'lookups_miss', 'invalid_ops', 'unsorted_removals', 'sorted_removals', 'growth_crossings', 'strhash_values', 'named_lookups'):
        if V.counters.get(k, 0) == 0:
            inc.append("monitor counter %s is zero" % k)
    return V.finish(
        rule="random op histories (add/remove by index|hash sorted|unsorted/set-hash/lookup/remove-all/set N_active, valid and invalid) "
             "replayed against the real simulation (C API and Python container; plain/MERCURIUS/TRACE; rel and ASan+UBSan builds) and a list model, "
             "compared after every op. A cell = (api, integrator mode, build, duplicate/zero hashes used, storage-growth class, unsorted removals seen, "
             "invalid requests seen); a history counts only if >=20 ops were compared. String names: reb_hash and rebound.hash vs an independent "
             "MurmurHash3 for every length 0..70, and named particles through add/remove/lookup by name.",
        assumptions=["ids carried in the mass field identify particles", "N_active is compared only where the code documents an adjustment (sorted removal leaving N>=1, remove-all, explicit set)",
                     "ASan red zones: intra-object overflows are invisible"],
        floor=8, inconclusive_if=inc)


def replay(path):
    with open(path) as f:
        d = json.load(f)
    bad = 0
    for v in d['violations']:
        case = v['witness']['case']
        res = core.run_cases('checks.c14_bookkeeping', case.get('variant', 'rel'), [case])[0]
        print(json.dumps(res)[:2000])
        bad += bool(res.get('violations') or res.get('crash'))
    return 1 if bad else 0
