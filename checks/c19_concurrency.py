"""C19 - concurrent simulations do not interfere; served snapshots are consistent.

 cdriver   cdrv/threads.c runs the same job set (create / integrate / copy / serialise / restore / free, all integrator types,
           MEGNO) one after another and in 2-32 pthreads; the per-job hashes must be identical, in the release build and under
           ThreadSanitizer, where additionally no report may be emitted (reports are counted from the log, deduplicated by top frames).
 pythreads the option lattice of vf.gen (every integrator, random documented options) driven from Python threads (ctypes releases the
           GIL inside the library): per-simulation digests (independent archive parser) of threaded runs with random step-level
           interleaving must equal those of sequential runs.
 whfast512 two WHFast512 simulations with different stellar masses stepped alternately in one thread must each follow the
           trajectory they have when run alone (process-global constants).
 server    a simulation with a state-modifying heartbeat integrates while clients hammer /simulation of the built-in server: the
           final state must equal the run without a server; every response must parse as a snapshot whose (t, state) is one of the
           step-boundary states of the reference run and, continued to the end, must reproduce the final state bit for bit.
"""
import json, math, os, random, re, subprocess, time
from vf import core, gen

PROPERTY = "C19"


def run_case(case):
    import ctypes, warnings, threading, socket
    warnings.simplefilter('ignore')
    r = random.Random(case['seed'])
    viol = []
    counters = dict(cdriver_runs=0, cdriver_jobs_compared=0, tsan_runs=0, pythread_rounds=0, pythread_sims_compared=0, server_runs=0, server_snapshots=0, server_snapshots_mid_run=0, whfast512_pairs=0)
    cells = set()

    def add(mech, msg):
        if len(viol) < 40:
            viol.append(dict(mech=mech, msg=msg))

    kind = case['kind']
    if kind == 'cdriver':
        binp = case['bin']
        env = dict(os.environ)
        env['TSAN_OPTIONS'] = 'halt_on_error=0 report_signal_unsafe=0 exitcode=0'
        for rep in range(2 * case['reps']):
            sd = r.randrange(1, 10 ** 6)
            # second job class of the driver: module simulations (tree gravity with a different G / softening / opening angle per job, direct /
            # tree / line collision searches with merge or hard-sphere resolution, periodic boxes with ghost rings), all in flight together
            jc = ['modules'] if rep % 2 else []
            nj = r.choice([40, 100, 200]) if not jc else r.choice([32, 64])
            ns = r.choice([50, 200, 400]) if not jc else r.choice([20, 60])
            seq = subprocess.run([binp, 'seq', '1', str(nj), str(sd), str(ns)] + jc, capture_output=True, text=True, env=env, timeout=600)
            want = dict(l.split() for l in seq.stdout.splitlines() if not l.startswith('#'))
            if seq.returncode != 0 or len(want) != nj:
                add('threads:driver-died:sequential:%s' % case['variant'], 'rc=%r jobs reported %d of %d (class %r); stderr %r' % (seq.returncode, len(want), nj, jc, seq.stderr[-600:]))
                continue
            for nth in r.sample([2, 4, 8, 16, 32], 2):
                par = subprocess.run([binp, 'par', str(nth), str(nj), str(sd), str(ns)] + jc, capture_output=True, text=True, env=env, timeout=600)
                counters['cdriver_runs'] += 1
                if jc:
                    counters['cdriver_module_runs'] = counters.get('cdriver_module_runs', 0) + 1
                if case['variant'] == 'tsan':
                    counters['tsan_runs'] += 1
                got = dict(l.split() for l in par.stdout.splitlines() if not l.startswith('#'))
                if par.returncode != 0 or len(got) != nj:
                    add('threads:driver-died:%s' % case['variant'], 'rc=%r jobs reported %d of %d; stderr %r' % (par.returncode, len(got), nj, par.stderr[-600:]))
                    continue
                for k in want:
                    counters['cdriver_jobs_compared'] += 1
                    if got.get(k) != want[k]:
                        integ = ['ias15', 'whfast', 'saba', 'eos', 'leapfrog', 'mercurius', 'trace', 'bs', 'janus', 'whfast-unsafe'][int(k) % 10]
                        if jc:
                            kk = int(k)
                            integ = 'modules:gravity-%s:collision-%s%s' % (['tree', 'tree', 'basic', 'compensated'][kk % 4], ['none', 'direct', 'tree', 'line'][(kk // 4) % 4], ':periodic' if (kk // 2) % 2 else '')
                        add('threads:result-differs-from-sequential:%s' % integ, 'job %s (%s) seed %d steps %d with %d threads: %s vs sequential %s (%s build)' % (k, integ, sd, ns, nth, got.get(k), want[k], case['variant']))
                reports = re.findall(r'WARNING: ThreadSanitizer: ([^\n]*)\n(.*?)(?=\n\n|\Z)', par.stderr, re.S)
                seen = set()
                for title, body in reports:
                    frames = re.findall(r'#\d+ (\S+)', body)[:2]
                    key = (title.split('(')[0].strip(), tuple(frames))
                    if key in seen:
                        continue
                    seen.add(key)
                    add('tsan:%s:%s' % (key[0].replace(' ', '-'), '/'.join(frames)), 'ThreadSanitizer report with %d threads, seed %d: %s %s' % (nth, sd, title, body[:600]))
                cells.add(json.dumps(['cdriver', case['variant'], nth, bool(jc)]))
    elif kind == 'pythreads':
        import rebound
        from vf import rt
        from concurrent.futures import ThreadPoolExecutor
        avx = case.get('avx512', False)
        specs = []
        for i in range(case['nsims']):
            rr = random.Random(r.getrandbits(40))
            integ = rr.choice(['ias15', 'whfast', 'saba', 'eos', 'leapfrog', 'mercurius', 'trace', 'bs', 'janus'] + (['whfast512'] * 4 if avx else []))
            spec = gen.random_spec(rr, integ=integ, allow_var=(integ != 'whfast512'), nmax=4, avx512=avx)
            spec['nsteps'] = rr.choice([30, 100, 300])
            specs.append(spec)

        def job(spec, jitter):
            sim = gen.build_sim(spec)
            rj = random.Random(jitter)
            done = 0
            while done < spec['nsteps']:
                n = rj.choice([1, 1, 5, 50]) if jitter else spec['nsteps']
                n = min(n, spec['nsteps'] - done)
                sim.steps(n)
                done += n
                if jitter and rj.random() < 0.2:
                    c = sim.copy()          # churn on a copy only: observers must not matter, and allocators get exercised
                    rt.save_bytes(c)
                    del c
                if jitter and rj.random() < 0.3:
                    time.sleep(0)
            sim.synchronize()
            return rt.digest(rt.sabin_sim(sim))
        want = [job(s, 0) for s in specs]
        for rnd in range(case['rounds']):
            counters['pythread_rounds'] += 1
            order = list(range(len(specs)))
            r.shuffle(order)
            with ThreadPoolExecutor(max_workers=r.choice([4, 8, 16])) as ex:
                futs = [(i, ex.submit(job, specs[i], r.randrange(1, 10 ** 9))) for i in order]
                for i, f in futs:
                    try:
                        got = f.result(timeout=900)
                    except Exception as e:
                        add('threads:job-failed:%s' % specs[i]['integrator'], repr(e)[:300])
                        continue
                    counters['pythread_sims_compared'] += 1
                    if got != want[i]:
                        s512 = specs[i]['integrator'] == 'whfast512'
                        add('threads:result-differs-from-sequential:%s%s' % (specs[i]['integrator'], ':process-global-constants' if s512 else ''), 'integrator %s opts %r: digest of the threaded run differs from the sequential run' % (specs[i]['integrator'], specs[i]['opts']))
            cells.add(json.dumps(['pythreads', rnd % 2]))
    elif kind == 'whfast512':
        import rebound

        def mk(mstar, gr):
            sim = rebound.Simulation()
            sim.integrator = 'whfast512'
            sim.exact_finish_time = 0
            sim.ri_whfast512.gr_potential = gr
            sim.add(m=mstar)
            sim.add(m=1e-3, a=1.0, e=0.05)
            sim.add(m=3e-4, a=1.9, e=0.02, f=1.0)
            sim.dt = 0.05
            return sim
        for ma, mb, gr in ((1.0, 1.0, 0), (1.0, 0.5, 0), (1.0, 2.0, 1), (0.7, 0.7, 1)):
            alone = []
            for m_ in (ma, mb):
                s = mk(m_, gr)
                s.steps(200)
                s.synchronize()
                alone.append([(p.x, p.y, p.z) for p in s.particles])
            A, B = mk(ma, gr), mk(mb, gr)
            for _i in range(200):
                A.steps(1)
                B.steps(1)
            A.synchronize()
            B.synchronize()
            counters['whfast512_pairs'] += 1
            for nm, s, ref, mm in (('first', A, alone[0], ma), ('second', B, alone[1], mb)):
                got = [(p.x, p.y, p.z) for p in s.particles]
                if got != ref:
                    dd = max(abs(a_ - b_) for p, q in zip(got, ref) for a_, b_ in zip(p, q))
                    add('interleaved:result-differs-from-alone:whfast512:process-global-constants' if ma != mb else 'interleaved:result-differs-from-alone:whfast512:equal-systems',
                        'two WHFast512 simulations (stellar masses %r and %r, gr_potential=%d) stepped alternately in one thread: the %s one ends %.3e away from where it ends when run alone' % (ma, mb, gr, nm, dd))
            cells.add(json.dumps(['whfast512', ma != mb, gr]))
    elif kind == 'portconflict':
        # ---------------------------------------------------------------- a server that could not start, next to servers that could
        # A serves on a free port.  B is asked to serve on the SAME port: its bind fails.  Afterwards C starts its own server (it may well
        # receive the descriptor number B's failed socket had) and integrates while a client polls it.  B is then stopped / freed.  Whatever
        # B's failed start left behind must not touch A's or C's sockets: every request to C and to A succeeds, C's snapshots load and C ends
        # where an unserved twin ends.
        import rebound, urllib.request, gc
        from vf import rt
        rr = random.Random(r.getrandbits(40))

        def freeport():
            s_ = socket.socket()
            s_.bind(('127.0.0.1', 0))
            p_ = s_.getsockname()[1]
            s_.close()
            return p_

        def fetch(port_):
            with urllib.request.urlopen('http://127.0.0.1:%d/simulation' % port_, timeout=5) as resp:
                return resp.read()
        spec = gen.random_spec(rr, integ=rr.choice(['whfast', 'leapfrog', 'ias15']), allow_var=False, nmax=2)
        a = gen.build_sim(spec)
        pa = freeport()
        try:
            a.start_server(port=pa)
        except Exception as e:
            add('server:could-not-start', repr(e)[:200])
            a = None
        if a is not None:
            nfail = 0
            bs = []
            for _k in range(rr.choice([1, 2, 3])):
                b = gen.build_sim(spec)
                try:
                    b.start_server(port=pa)         # busy: must fail (an exception, or a server that is simply not there)
                except Exception:
                    nfail += 1
                bs.append(b)
            counters['portconflict_failed_starts'] = nfail
            c = gen.build_sim(spec)
            twin = gen.build_sim(spec)
            pc = freeport()
            try:
                c.start_server(port=pc)
            except Exception as e:
                add('server:could-not-start', 'second simulation on a free port: ' + repr(e)[:200])
                c = None
            if c is not None:
                order = rr.choice(['free-then-poll', 'poll-then-free'])
                got, errs = [], []
                if order == 'free-then-poll':
                    for b in bs:
                        if rr.random() < 0.5:
                            try:
                                b.stop_server()
                            except Exception:
                                pass
                    del bs[:]
                    b = None
                    gc.collect()
                nst = 300
                th = threading.Thread(target=lambda: c.steps(nst))
                th.start()
                for _q in range(8):
                    try:
                        got.append(fetch(pc))
                    except Exception as e:
                        errs.append(repr(e)[:120])
                    if order == 'poll-then-free' and _q == 2:
                        del bs[:]
                        b = None
                        gc.collect()
                    time.sleep(0.01)
                th.join()
                for _q in range(2):
                    try:
                        got.append(fetch(pc))
                    except Exception as e:
                        errs.append(repr(e)[:120])
                try:
                    fetch(pa)
                except Exception as e:
                    add('server:other-simulations-server-gone-after-a-failed-start-elsewhere', 'simulation A (port %d) no longer answers after B failed to bind that port and was freed: %r' % (pa, e))
                counters['portconflict_requests'] = len(got) + len(errs)
                if errs:
                    add('server:other-simulations-server-gone-after-a-failed-start-elsewhere', 'simulation C (own free port %d): %d of %d requests failed after %d failed starts of other simulations on a busy port (%s): %s' % (pc, len(errs), len(errs) + len(got), nfail, order, errs[0]))
                for body in got:
                    try:
                        rebound.Simulation(body)
                    except Exception as e:
                        add('server:response-not-a-snapshot', 'port-conflict history: %s: %s' % (type(e).__name__, e))
                        break
                twin.steps(nst)
                c.synchronize()
                twin.synchronize()
                if rt.digest(rt.sabin_sim(c)) != rt.digest(rt.sabin_sim(twin)):
                    add('server:served-run-differs-from-unserved-run', 'port-conflict history: served simulation ends elsewhere than its unserved twin')
                try:
                    c.stop_server()
                except Exception:
                    pass
            try:
                a.stop_server()
            except Exception:
                pass
            counters['portconflict_runs'] = 1
            cells.add(json.dumps(['portconflict', spec['integrator']]))
    elif kind == 'bystander':
        # ---------------------------------------------------------------- a served simulation next to an unrelated one
        # Simulation A runs its built-in server and is polled by clients.  In other threads of the same process (i) simulation B
        # appends snapshots to its own archive and (ii) a probe opens / writes / closes its own scratch file in a tight loop.
        # File descriptors are process-wide: if A's server ever closes a descriptor it does not own (e.g. closes a client
        # connection twice), it closes B's archive or the probe's file under their feet.  Oracle: every operation of B and of the
        # probe succeeds, B's archive holds exactly the snapshots B took, each equal to B's live state at that moment.
        import rebound, urllib.request, tempfile
        from vf import rt
        rr = random.Random(r.getrandbits(40))
        a = gen.build_sim(gen.random_spec(rr, integ='whfast', allow_var=False, nmax=2))
        s_ = socket.socket()
        s_.bind(('127.0.0.1', 0))
        port = s_.getsockname()[1]
        s_.close()
        try:
            a.start_server(port=port)
        except Exception as e:
            add('server:could-not-start', repr(e)[:200])
            a = None
        if a is not None:
            stop = [False]
            nreq = [0]

            def client():
                while not stop[0]:
                    try:
                        with urllib.request.urlopen('http://127.0.0.1:%d/simulation' % port, timeout=5) as resp:
                            resp.read()
                            nreq[0] += 1
                    except Exception:
                        pass
            probe = dict(n=0, bad=0, first=None)
            tmpd = tempfile.mkdtemp(prefix='c19by-')

            def fdprobe():
                fn_ = os.path.join(tmpd, 'probe.bin')
                while not stop[0]:
                    try:
                        fd = os.open(fn_, os.O_WRONLY | os.O_CREAT)
                        os.write(fd, b'x')
                        os.close(fd)
                    except OSError as e:
                        probe['bad'] += 1
                        if probe['first'] is None:
                            probe['first'] = 'cycle %d: %s' % (probe['n'], e)
                    probe['n'] += 1
            ths = [threading.Thread(target=client) for _ in range(2)] + [threading.Thread(target=fdprobe)]
            for t_ in ths:
                t_.start()
            b = gen.build_sim(gen.random_spec(rr, integ=r.choice(['whfast', 'ias15', 'leapfrog']), allow_var=False, nmax=3))
            fnb = os.path.join(tmpd, 'b.sa')
            expected = []
            t_end = time.time() + case.get('secs', 2.0)
            err = None
            while time.time() < t_end and len(expected) < 400:
                try:
                    b.steps(2)
                    expected.append(rt.digest(rt.sabin(rt.save_bytes(b))))
                    b.save_to_file(fnb)
                except Exception as e:
                    err = '%s: %s' % (type(e).__name__, e)
                    break
            stop[0] = True
            for t_ in ths:
                t_.join()
            try:
                a.stop_server()
            except Exception:
                pass
            counters['bystander_runs'] = 1
            counters['bystander_requests_served'] = nreq[0]
            counters['bystander_snapshots'] = len(expected)
            counters['bystander_fd_cycles'] = probe['n']
            if probe['bad']:
                add('server:closes-descriptor-it-does-not-own', '%d of %d open/write/close cycles of an unrelated thread failed while %d requests were served (first: %s)' % (probe['bad'], probe['n'], nreq[0], probe['first']))
            if err:
                add('server:bystander-archive-operation-failed', 'simulation B (no server) failed while A served %d requests: %s' % (nreq[0], err))
            else:
                try:
                    sa = rebound.Simulationarchive(fnb)
                    got = [rt.digest(rt.sabin(rt.save_bytes(sa[i]))) for i in range(len(sa))]
                    if len(got) != len(expected):
                        add('server:bystander-archive-lost-snapshots', 'B appended %d snapshots, its archive holds %d (A served %d requests meanwhile)' % (len(expected), len(got), nreq[0]))
                    else:
                        nd = sum(1 for x_, y_ in zip(got, expected) if x_ != y_)
                        if nd:
                            add('server:bystander-archive-snapshots-differ', '%d of %d snapshots of B differ from its live state' % (nd, len(got)))
                except Exception as e:
                    add('server:bystander-archive-unreadable', 'B appended %d snapshots; opening its archive: %s: %s' % (len(expected), type(e).__name__, e))
            import shutil
            shutil.rmtree(tmpd, ignore_errors=True)
            cells.add(json.dumps(['bystander', b.integrator]))
    else:
        # ---------------------------------------------------------------- server
        import rebound, urllib.request
        from vf import rt
        integ = r.choice(['whfast', 'mercurius', 'saba'] if case.get('unsafe') else ['whfast', 'leapfrog', 'ias15', 'mercurius', 'saba'])
        rr = random.Random(r.getrandbits(40))
        spec = gen.random_spec(rr, integ=integ, allow_var=False, nmax=3)
        for k in list(spec['opts']):
            if k.endswith('safe_mode') or k.endswith('keep_unsynchronized') or 'min_dt' in k:
                del spec['opts'][k]
        # half of the deferred-synchronisation integrators run with safe_mode=0: the live simulation is then unsynchronised at
        # every step boundary, and a handler that synchronises it (instead of a copy) silently changes the trajectory
        unsafe = bool(case.get('unsafe'))
        if unsafe:
            spec['opts']['ri_%s.safe_mode' % integ] = 0
            counters['server_runs_unsynchronised'] = 1
        if integ == 'ias15':
            spec['opts']['ri_ias15.adaptive_mode'] = 2      # mode 0 is documented to stall when an acceleration component passes through zero
        nsteps = r.choice([150, 400])
        damp = 1.0 - 1e-6      # any change of state will do; a strong drag makes the planets spiral into the star

        def skey(s_):
            # unsafe mode: the state is the internal coordinates + flags, i.e. the whole persisted content
            return rt.digest(rt.sabin_sim(s_)) if unsafe else rt.state_hash(s_)

        def attach(sim, boundary_log, skip_first=False):
            first = [skip_first]
            calls = [0]

            def hb(sp):
                s = sp.contents
                if first[0]:
                    first[0] = False       # integrate() calls the heartbeat once before its first step: when continuing from a served
                    return                 # snapshot that call has already happened in the original run
                calls[0] += 1
                if calls[0] > 30 * nsteps:
                    s._status = 5          # an adaptive scheme taking 30x the planned steps: stop (the run is then not evaluated)
                    return
                # a heartbeat that changes the state: every snapshot taken while it runs would be torn
                # (not in unsafe mode, where the particle array is not the state between steps and must not be edited)
                if not unsafe:
                    for p in s.particles:
                        p.vx *= damp
                        time.sleep(0)
                        p.vy *= damp
                        p.vz *= damp
                time.sleep(0.0005)
                if boundary_log is not None:
                    boundary_log.append((s.t, skey(s)))     # the state the loop leaves behind when it releases the server's mutex
            sim.heartbeat = hb
            return hb
        # reference: no server
        ref = gen.build_sim(spec)
        blog = [(ref.t, skey(ref))]
        keep1 = attach(ref, blog)
        T = ref.t + nsteps * ref.dt
        # the interval is covered by one integrate() call or by many short ones: every call ends with a synchronisation outside the
        # step loop, a window in which a request must not see a half-written state either
        ncalls = 1 if case.get('calls', 0) == 0 else int(case['calls'])
        targets = [ref.t + (T - ref.t) * (j + 1) / ncalls for j in range(ncalls)]

        call_times = set([ref.t])

        def drive(s_, log_=None):
            for tg in targets:
                s_.integrate(tg, exact_finish_time=0)
                if log_ is not None:
                    log_.append((s_.t, skey(s_)))       # the state left behind when the call returns
                    call_times.add(s_.t)
        drive(ref, blog)
        blog.append((ref.t, skey(ref)))
        final_ref = rt.digest(rt.sabin_sim(ref))
        boundary = set(blog)
        # served run
        s = socket.socket()
        s.bind(('127.0.0.1', 0))
        port = s.getsockname()[1]
        s.close()
        sim = gen.build_sim(spec)
        keep2 = attach(sim, None)
        try:
            sim.start_server(port=port)
        except Exception as e:
            add('server:could-not-start', repr(e)[:200])
            sim = None
        if sim is not None:
            counters['server_runs'] += 1
            bodies = []
            stop = [False]

            def client():
                while not stop[0]:
                    try:
                        with urllib.request.urlopen('http://127.0.0.1:%d/simulation' % port, timeout=5) as resp:
                            bodies.append(resp.read())
                    except Exception as e:
                        bodies.append(e)
                    time.sleep(r.choice([0, 0.001, 0.003]))
            ths = [threading.Thread(target=client) for _ in range(3)]
            for t_ in ths:
                t_.start()
            drive(sim)
            stop[0] = True
            for t_ in ths:
                t_.join()
            final_served = rt.digest(rt.sabin_sim(sim))
            try:
                sim.stop_server()
            except Exception:
                pass
            if final_served != final_ref:
                add('server:serving-changed-the-trajectory:%s%s' % (integ, ':unsynchronised' if unsafe else ''), '%s: final state with %d served requests differs from the run without a server' % (integ, len(bodies)))
            nbad = 0
            cont_budget = 6
            for b in bodies:
                if isinstance(b, Exception):
                    counters['server_request_errors'] = counters.get('server_request_errors', 0) + 1
                    continue
                counters['server_snapshots'] += 1
                try:
                    snap = rebound.Simulation(b)
                except Exception as e:
                    add('server:response-is-not-a-snapshot:%s' % integ, 'response of %d bytes does not load: %r' % (len(b), e))
                    continue
                key = (snap.t, rt.digest(rt.sabin(b)) if unsafe else rt.state_hash(snap))      # unsafe: the served bytes themselves (a re-save of the loaded copy would drop the function-pointer flag)
                if 0 < len([1 for q in blog if q[0] == snap.t]) and snap.t not in (blog[0][0], blog[-1][0]):
                    counters['server_snapshots_mid_run'] += 1
                if key not in boundary:
                    nbad += 1
                    if nbad <= 3:
                        samet = [q for q in blog if q[0] == snap.t]
                        # known finding: integrate() works on the simulation OUTSIDE the server's mutex at the beginning and at the end of
                        # every call (initial heartbeat, synchronisation, dt bookkeeping); a torn snapshot at such a time is that race
                        at_call_edge = bool(samet) and snap.t in call_times
                        add('server:snapshot-is-not-a-step-boundary-state:%s' % ('taken-while-integrate-works-outside-its-mutex' if at_call_edge else integ), '%s: served snapshot at t=%r %s' % (integ, snap.t, 'matches no boundary time of the run' if not samet else 'has the time of a step boundary but not its state (torn)'))
                    continue
                if cont_budget > 0 and snap.t != blog[-1][0] and ncalls == 1:
                    cont_budget -= 1
                    keep3 = attach(snap, None, skip_first=True)
                    for tg in targets:
                        if (tg - snap.t) * (1 if T > 0 else -1) > 0:
                            snap.integrate(tg, exact_finish_time=0)
                    if rt.digest(rt.sabin_sim(snap)) != final_ref:
                        add('server:continued-snapshot-diverges:%s' % integ, '%s: snapshot served at t=%r continued to the end does not reproduce the final state' % (integ, key[0]))
            cells.add(json.dumps(['server', integ, nsteps, int(unsafe)]))
    for v in viol:
        v['case_seed'] = case['seed']
    return dict(violations=viol, cells=[json.loads(c) for c in cells], counters=counters, sample=dict(seed=case['seed'], kind=kind))


def main(tier, seed):
    from vf import build
    V = core.Verdict(PROPERTY, tier, seed)
    r = core.rng(PROPERTY, seed)
    have512 = 'avx512f' in open('/proc/cpuinfo').read()
    bins = dict((v, build.cdriver('threads', v, ['threads.c'])) for v in ('rel', 'tsan'))
    q = tier == 'quick'
    cases = {'rel': [], 'avx512': []}
    for v in ('rel', 'tsan'):
        for i in range(4 if q else 40):
            cases['rel'].append(dict(kind='cdriver', variant=v, bin=bins[v], seed=r.getrandbits(40), reps=2 if q else 4))
    for i in range(6 if q else 60):
        cases['rel'].append(dict(kind='pythreads', seed=r.getrandbits(40), nsims=16, rounds=3 if q else 6))
    for i in range(12 if q else 80):
        cases['rel'].append(dict(kind='server', seed=r.getrandbits(40), unsafe=i % 2, calls=[0, 0, 60, 60][i % 4]))
    for i in range(3 if q else 24):
        cases['rel'].append(dict(kind='bystander', seed=r.getrandbits(40), secs=2.0 if q else 4.0))
    for i in range(6 if q else 40):
        cases['rel'].append(dict(kind='portconflict', seed=r.getrandbits(40)))
    if have512:
        cases['avx512'].append(dict(kind='whfast512', seed=r.getrandbits(40)))
        for i in range(2 if q else 12):
            cases['avx512'].append(dict(kind='pythreads', seed=r.getrandbits(40), nsims=12, rounds=3, avx512=True))
    else:
        V.inconclusive.append('CPU lacks avx512f: WHFast512 not exercised')
    from checks.c14_bookkeeping import crash_mech
    for variant, cs in cases.items():
        res = core.run_cases('checks.c19_concurrency', variant, cs, timeout_case=600, nproc=4, chunk=1)
        for c, rr in zip(cs, res):
            V.absorb(c, rr, crash_mech=crash_mech)
    inc = []
    for k in ('cdriver_runs', 'cdriver_module_runs', 'cdriver_jobs_compared', 'tsan_runs', 'pythread_rounds', 'pythread_sims_compared', 'server_runs', 'server_runs_unsynchronised', 'server_snapshots', 'server_snapshots_mid_run', 'bystander_requests_served', 'bystander_snapshots', 'bystander_fd_cycles', 'portconflict_runs', 'portconflict_failed_starts', 'portconflict_requests'):
        if V.counters.get(k, 0) == 0:
            inc.append('monitor counter %s is zero' % k)
    return V.finish(
        rule="C driver: 40-200 jobs x 10 integrator configurations x 2-32 threads x seeds, release and ThreadSanitizer builds; Python threads: 16 random simulations x rounds with random step-level interleaving; "
             "WHFast512 pairs; server: 5 integrators x modifying heartbeat x 3 concurrent clients; distinct = (monitor, build/integrator, thread count)",
        assumptions=["ThreadSanitizer only sees the synchronisation it intercepts (pthread mutexes here); the Python-thread monitor relies on ctypes releasing the GIL inside library calls",
                     "served snapshots are compared with step-boundary states recorded by the same heartbeat in a run without a server"], floor=12, inconclusive_if=inc)


def replay(path):
    return 1
