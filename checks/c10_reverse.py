"""C10 - JANUS is bit-wise reversible; symmetric fixed-step schemes reverse to rounding.

 JANUS: initial conditions are put on the integer grid (fixed points of the code's own double<->int64 conversion, computed
   independently in Python), n steps forward, dt negated, n steps: the int64 state (read directly from ri_janus.p_int) equals the
   initial integers and the doubles equal the initial bits.  Also nested round trips (forward a, back b<a, forward ..., back to 0)
   and starting with a negative step.
 Others (LEAPFROG, WHFast 4 coordinate systems/default kernel/no corrector, uncorrected SABA types, unprocessed EOS splittings,
   SEI): n steps forward, synchronize, dt negated, n steps, synchronize: back to the initial state within K eps n scale.
"""
import json, math, random
from vf import core, gen
from vf.num import gt, nmax as max, nmin as min

PROPERTY = "C10"
EPS = 2.0 ** -52
SABA_UNCORRECTED = ["1", "2", "3", "4", "10,4", "8,6,4", "10,6,4", "h8,4,4", "h8,6,4", "h10,6,4"]
EOS_UNPROCESSED = ["lf", "lf4", "lf6", "lf8", "lf4_2", "lf8_6_4"]


def grid_fix(x, s):
    """fixed point of x -> (double)(int64)(x/s) * s, mirroring the C conversions (truncation toward zero)"""
    for _ in range(6):
        k = int(x / s)
        x1 = float(k) * s
        if x1 == x and int(x1 / s) == k:
            return x1, k
        x = x1
    return None, None


def run_case(case):
    import ctypes, warnings
    warnings.simplefilter('ignore')
    import rebound
    r = random.Random(case['seed'])
    viol = []
    counters = dict(janus_roundtrips=0, janus_steps=0, janus_nested=0, janus_states_moved=0, symmetric_roundtrips=0, grid_fixpoint_failed=0)
    cells = set()

    def add(mech, msg):
        if len(viol) < 40:
            viol.append(dict(mech=mech, msg=msg))

    def bits(sim):
        import struct
        return [struct.pack('<6d', p.x, p.y, p.z, p.vx, p.vy, p.vz) for p in sim.particles]

    def ints(sim):
        pi = sim.ri_janus.p_int
        return [(pi[i].x, pi[i].y, pi[i].z, pi[i].vx, pi[i].vy, pi[i].vz) for i in range(sim.N)]

    for _ in range(case['n']):
        kind = r.choice(case['kinds'])
        if kind == 'janus':
            order = r.choice([2, 4, 6, 8, 10])
            sp = r.choice([1e-16, 2.0 ** -50, 1e-10, 1e-13, 3.7e-15, 2.0 ** -40])
            sv = r.choice([1e-16, 2.0 ** -50, 1e-10, 1e-13, 3.7e-15, 2.0 ** -40])
            sysd = gen.planetary_system(random.Random(r.getrandbits(40)), r.randint(1, 6), hill_sep=r.choice([9.0, 5.0, 2.5]), emax=r.choice([0.15, 0.6]))
            spec = dict(integrator='janus', system=sysd, opts={'ri_janus.order': order, 'ri_janus.scale_pos': sp, 'ri_janus.scale_vel': sv})
            P = gen.inner_period(sysd)
            spec['dt'] = P / r.choice([8.1, 17.3, 40.7, 100.0]) * r.choice([1, 1, -1])
            if r.random() < 0.2:
                spec['G'] = r.choice([0.5, 39.476926421373])
                spec['dt'] /= math.sqrt(spec['G'])
            sim = gen.build_sim(spec)
            if r.random() < 0.2:
                sim.softening = 0.01
            if r.random() < 0.25 and sim.N > 2:
                sim.N_active = sim.N - r.randint(1, sim.N - 2)
                sim.testparticle_type = r.choice([0, 1])
                counters['janus_with_test_particles'] = counters.get('janus_with_test_particles', 0) + 1
            # put the initial conditions on the grid
            k0 = []
            ok = True
            for p in sim.particles:
                row = []
                for nm, s in (('x', sp), ('y', sp), ('z', sp), ('vx', sv), ('vy', sv), ('vz', sv)):
                    v, k = grid_fix(getattr(p, nm), s)
                    if v is None or abs(k) > 2 ** 61:
                        ok = False
                        break
                    setattr(p, nm, v)
                    row.append(k)
                if not ok:
                    break
                k0.append(tuple(row))
            if not ok:
                counters['grid_fixpoint_failed'] += 1
                continue
            b0 = bits(sim)
            n = r.choice([1, 2, 3, 5, 10, 40, 150])
            nested = r.random() < 0.3
            counters['janus_roundtrips'] += 1
            if not nested:
                sim.steps(n)
                mid = ints(sim)
                if mid != k0:
                    counters['janus_states_moved'] += 1
                sim.dt = -sim.dt
                sim.steps(n)
                counters['janus_steps'] += 2 * n
            else:
                counters['janus_nested'] += 1
                # a walk +a1 -b1 +a2 -b2 ... that ends at step index 0, never going below 0
                pos = 0
                moves = []
                for _j in range(r.randint(2, 5)):
                    a_ = r.randint(1, n)
                    moves.append(a_)
                    pos += a_
                    b_ = r.randint(0, pos)
                    moves.append(-b_)
                    pos -= b_
                moves.append(-pos)
                for m in moves:
                    if m == 0:
                        continue
                    want = abs(spec['dt']) * (1 if (m > 0) == (spec['dt'] > 0) else -1)
                    sim.dt = want
                    sim.steps(abs(m))
                    counters['janus_steps'] += abs(m)
                counters['janus_states_moved'] += 1
            k1 = ints(sim)
            b1 = bits(sim)
            lab = 'order%d' % order
            if k1 != k0:
                nbad = sum(1 for a_, b_ in zip(k0, k1) for x_, y_ in zip(a_, b_) if x_ != y_)
                dmax = max(abs(x_ - y_) for a_, b_ in zip(k0, k1) for x_, y_ in zip(a_, b_))
                add('janus:integer-state-not-restored:%s' % lab, 'order %d scale_pos %r scale_vel %r N %d n %d dt %r nested %r: %d integer coordinates differ (max %d grid units)' % (order, sp, sv, sim.N, n, spec['dt'], nested, nbad, dmax))
            elif b1 != b0:
                add('janus:doubles-not-restored:%s' % lab, 'order %d scale_pos %r scale_vel %r: integer state restored but doubles differ' % (order, sp, sv))
            cells.add(json.dumps(['janus', order, sp, sv, nested]))
        else:
            integ = kind
            rr = random.Random(r.getrandbits(40))
            opts = {}
            if integ == 'whfast':
                opts = {'ri_whfast.coordinates': r.choice(gen.WH_COORDS)}
                if r.random() < 0.5:
                    opts['ri_whfast.safe_mode'] = 0
            elif integ == 'saba':
                opts = {'ri_saba.type': r.choice(SABA_UNCORRECTED)}
                if r.random() < 0.5:
                    opts['ri_saba.safe_mode'] = 0
            elif integ == 'eos':
                opts = {'ri_eos.phi0': r.choice(EOS_UNPROCESSED), 'ri_eos.phi1': r.choice(EOS_UNPROCESSED), 'ri_eos.n': r.choice([1, 2, 3, 5])}
                if r.random() < 0.5:
                    opts['ri_eos.safe_mode'] = 0
            if integ == 'sei':
                sim = rebound.Simulation()
                sim.integrator = 'sei'
                sim.ri_sei.OMEGA = r.choice([1.0, 0.3, 2.5])
                if r.random() < 0.5:
                    sim.ri_sei.OMEGAZ = sim.ri_sei.OMEGA * r.choice([1.0, 1.3])
                sim.dt = 2 * math.pi / sim.ri_sei.OMEGA / r.choice([17.3, 40.7, 100.0, 1000.0])
                for _j in range(r.randint(1, 6)):
                    sim.add(m=r.choice([0.0, 1e-8, 1e-6]), x=r.uniform(-5, 5), y=r.uniform(-5, 5), z=r.uniform(-0.5, 0.5), vx=r.uniform(-0.1, 0.1), vy=r.uniform(-3, 3), vz=r.uniform(-0.1, 0.1))
                sim.softening = 0.05
                desc = 'sei OMEGA %r' % sim.ri_sei.OMEGA
            elif r.random() < 0.25:
                # an unbound body flying past the star (regular, non-chaotic motion as well): coarse steps that span pericentre send the
                # Kepler solver through its hyperbolic branches, in both directions of time
                sim = rebound.Simulation()
                sim.add(m=1.0)
                fdt = r.choice([0.02, 0.3, 1.0]) * r.choice([1, -1])
                if abs(fdt) < 0.1 and r.random() < 0.6:
                    # a resolved inner planet (period >= 0.35); with the coarse steps it would be outside every scheme's domain
                    sim.add(m=10 ** r.uniform(-6, -3), a=r.uniform(0.15, 0.25), e=r.uniform(0, 0.1), f=r.uniform(0, 6.28))
                ecc = r.uniform(1.1, 3.0)
                finf = math.acos(-1.0 / ecc)
                sim.add(m=r.choice([0.0, 1e-6, 1e-4]), a=-1.0, e=ecc, f=r.uniform(-0.85, 0.85) * finf, inc=r.uniform(0, 0.5), primary=sim.particles[0])
                sim.move_to_com()
                sim.integrator = integ
                for k_, v_ in opts.items():
                    gen.set_path(sim, k_, v_)
                sim.dt = fdt
                desc = '%s opts %r hyperbolic flyby e=%.2f' % (integ, opts, ecc)
                flyby = True
                counters['flyby_roundtrips'] = counters.get('flyby_roundtrips', 0) + 1
            else:
                sysd = gen.planetary_system(rr, r.randint(1, 5))
                spec = dict(integrator=integ, system=sysd, opts=opts, dt=gen.inner_period(sysd) / r.choice([17.3, 25.1, 40.7, 100.0]) * r.choice([1, -1]))
                sim = gen.build_sim(spec)
                desc = '%s opts %r' % (integ, opts)
                if sim.N >= 3 and r.random() < 0.4:
                    # the outer bodies as test particles of either type (type 1 = semi-active: they act on the active bodies), with and without mass:
                    # the maps stay time-symmetric, whichever positions the forces of the inner stages are evaluated at
                    kt_ = r.randint(1, sim.N - 2)
                    sim.N_active = sim.N - kt_
                    sim.testparticle_type = r.choice([0, 1])
                    if r.random() < 0.3:
                        for j_ in range(sim.N_active, sim.N):
                            sim.particles[j_].m = 0.0
                    desc += ' N_active=%d of %d, testparticle_type=%d' % (sim.N_active, sim.N, sim.testparticle_type)
                    counters['symmetric_roundtrips_with_test_particles'] = counters.get('symmetric_roundtrips_with_test_particles', 0) + 1
            s0 = [(p.x, p.y, p.z, p.vx, p.vy, p.vz) for p in sim.particles]
            n = r.choice([1, 2, 5, 20, 100, 400]) if not locals().get('flyby') else r.choice([1, 2, 5, 25])
            sim.steps(n)
            sim.synchronize()
            sturn = [(p.x, p.y, p.z, p.vx, p.vy, p.vz) for p in sim.particles]
            sim.dt = -sim.dt
            sim.steps(n)
            sim.synchronize()
            s1 = [(p.x, p.y, p.z, p.vx, p.vy, p.vz) for p in sim.particles]
            counters['symmetric_roundtrips'] += 1
            sc = max(max(abs(x_) for x_ in p) for p in s0)
            if locals().get('flyby'):
                flyby = False
                scf = max(sc, max(max(abs(x_) for x_ in p) for p in sturn))
                d = max(max(abs(x_ - y_) for x_, y_ in zip(p, q)) for p, q in zip(s0, s1))
                counters['max_flyby_ratio_x1e15:' + integ] = max(counters.get('max_flyby_ratio_x1e15:' + integ, 0), int(d / scf * 1e15))
                # rounding errors are amplified along the diverging hyperbolic trajectory: relative 1e-9 of the largest coordinate met
                # (measured: below 1e-12); a wrong branch of the solver misses by O(1)
                if gt(d, 1e-9 * scf):
                    add('reverse:not-to-rounding:%s:hyperbolic-flyby' % integ, '%s n=%d dt=%r: max|diff| %.3e, scale %.3e' % (desc, n, sim.dt, d, scf))
                cells.add(json.dumps(['flyby', integ, sorted(opts.items())]))
                continue
            d = max(max(abs(x_ - y_) for x_, y_ in zip(p, q)) for p, q in zip(s0, s1))
            ratio = d / (EPS * n * sc)
            counters['max_ratio_x1000:' + integ] = max(counters.get('max_ratio_x1000:' + integ, 0), int(ratio * 1000))
            if gt(ratio, case['K'][integ]):
                add('reverse:not-to-rounding:%s' % integ, '%s n=%d dt=%r: max|diff| %.3e = %.1f eps n scale' % (desc, n, sim.dt, d, ratio))
            cells.add(json.dumps(['sym', integ, sorted(opts.items())]))
    for v in viol:
        v['case_seed'] = case['seed']
    return dict(violations=viol, cells=[json.loads(c) for c in cells], counters=counters, sample=dict(seed=case['seed']))


def main(tier, seed):
    V = core.Verdict(PROPERTY, tier, seed)
    r = core.rng(PROPERTY, seed)
    nb = 320 if tier == 'quick' else 4000
    cases = [dict(seed=r.getrandbits(40), n=10, K=dict(whfast=500, leapfrog=500, saba=500, eos=3000, sei=3e4), kinds=['janus', 'janus', 'janus', 'leapfrog', 'whfast', 'saba', 'eos', 'sei']) for _ in range(nb)]
    res = core.run_cases('checks.c10_reverse', 'rel', cases, timeout_case=600)
    for c, rr in zip(cases, res):
        V.absorb(c, rr)
    # max-type counters are merged by summation in Verdict: recompute them here
    for k in list(V.counters):
        if k.startswith('max_ratio_x1000:'):
            V.counters[k] = max(rr['counters'].get(k, 0) for rr in res if isinstance(rr, dict) and 'counters' in rr)
    inc = []
    for k in ('janus_roundtrips', 'janus_nested', 'janus_states_moved', 'symmetric_roundtrips'):
        if V.counters.get(k, 0) == 0:
            inc.append('monitor counter %s is zero' % k)
    if V.counters.get('grid_fixpoint_failed', 0) > V.counters.get('janus_roundtrips', 0):
        inc.append('most JANUS initial conditions could not be put on the grid')
    return V.finish(
        rule="JANUS: orders {2,4,6,8,10} x 6 position scales x 6 velocity scales x N 2..7 x n 1..150 x both step signs x plain/nested walks; "
             "symmetric schemes: LEAPFROG, WHFast x 4 coordinate systems, 10 uncorrected SABA types, 6x6 unprocessed EOS splittings, SEI; distinct = option tuple",
        assumptions=["rounding envelope for the non-JANUS schemes: 500 (WHFast, LEAPFROG, SABA) / 3000 (EOS) / 3e4 (SEI, shear amplifies) eps n scale; measured maxima 5..70 and 1400 on well separated planetary systems (non-chaotic regime)"], floor=40, inconclusive_if=inc)


def replay(path):
    return 1
