"""C13 - collisions are detected completely and resolved conservatively.

A recording collision_resolve callback observes every pair handed to the resolve routine by the real reb_simulation_step
(argument indices, ghost box, identities (hash) found at those indices at that moment, the whole particle array at the first
callback of the step = the post-integration / pre-resolution state).  Offline oracle per step:

 detection   brute-force O(N^2 x ghost ring) classification of every ordered (i, j, ghost box) of that state into
             required / ambiguous (within 1e-10 relative of a threshold) / excluded, for the overlap-and-approach rule
             (direct, tree) and the straight-line-path rule (line, linetree):  found subset-of allowed;  required subset-of found
             (direct: ordered triples; line: i<j; tree searches: at least one orientation of each unordered pair).
 history     with the built-in merge / hard-sphere resolvers wrapped by the recorder: indices in range and distinct at every
             callback; the identities found at the indices must be a pair that was (allowed to be) detected at search time
             (a wrong index fix-up after a removal presents some other pair); every required pair whose two members are alive at
             the end of the step must have been presented; no identity removed twice; survivors = initial - removed, no duplicate.
 conservation merge: pair mass, momentum, centre of mass across the call; total mass / momentum / centre of mass across the step;
             exactly one removal per effective merge.  hardsphere: pair momentum, kinetic energy (restitution 1), and the pair
             is not approaching afterwards; totals across the step.
"""
import json, math, random
from vf import core
from vf.num import gt, nmax as max, nmin as min

PROPERTY = "C13"
EPS = 2.0 ** -52
AMB = 1e-10


def gen_particles(r, L, n, vscale, zero_r_frac, equal_r):
    """positions inside [-L/2, L/2]^3 with clusters and chains of overlapping particles, radii over 3 decades"""
    ps = []
    base = L / 40.0
    def radius():
        if equal_r:
            return base
        u = r.random()
        if u < zero_r_frac:
            return 0.0
        if u < 0.1 + zero_r_frac:
            return base * 4 * r.uniform(0.5, 1.0)          # giants
        return base * 10 ** r.uniform(-3, 0)
    while len(ps) < n:
        kind = r.random()
        c = [r.uniform(-0.5, 0.5) * L * 0.96 for _ in range(3)]
        if r.random() < 0.3:
            # near a face/edge/corner of the box so that ghost images matter
            for ax in range(3):
                if r.random() < 0.5:
                    c[ax] = r.choice([-1, 1]) * L * 0.5 * (1 - 10 ** r.uniform(-4, -1.3))
        if kind < 0.35:
            k = 1
        elif kind < 0.7:
            k = 2
        else:
            k = r.randint(3, 6)
        rr = radius()
        first = dict(x=c[0], y=c[1], z=c[2], r=rr)
        group = [first]
        for _ in range(k - 1):
            prev = r.choice(group) if r.random() < 0.5 else group[-1]      # chains and clumps
            r2 = radius()
            f = r.choice([0.0, 0.3, 0.9, 0.999, 1.0, 1.001, 1.1, 2.0])
            d = f * (prev['r'] + r2)
            th, ph = math.acos(r.uniform(-1, 1)), r.uniform(0, 2 * math.pi)
            q = dict(x=prev['x'] + d * math.sin(th) * math.cos(ph), y=prev['y'] + d * math.sin(th) * math.sin(ph), z=prev['z'] + d * math.cos(th), r=r2)
            group.append(q)
        for q in group:
            if len(ps) >= n:
                break
            for ax in 'xyz':
                q[ax] = min(max(q[ax], -0.4999 * L), 0.4999 * L)
            while any(all(q[ax] == o[ax] for ax in 'xyz') for o in ps):       # the tree refuses identical coordinates
                q['x'] += L * 1e-7 * r.uniform(-1, 1)
            vs = vscale * r.choice([0.0, 1.0, 1.0, 10.0])
            q.update(vx=r.uniform(-1, 1) * vs, vy=r.uniform(-1, 1) * vs, vz=r.uniform(-1, 1) * vs)
            q['m'] = r.choice([1.0, 1e-3, 10 ** r.uniform(-8, 0), 0.0])
            ps.append(q)
    return ps


def classify(P, gbs, mode, dt_last):
    """P: list of (x,y,z,vx,vy,vz,r).  returns (required, allowed): sets of ordered (i, j, g)"""
    import numpy as np
    A = np.array(P, dtype=float)
    N = len(P)
    req, alw = set(), set()
    if N < 2:
        return req, alw
    X = A[:, 0:3]
    V = A[:, 3:6]
    R = A[:, 6]
    sr = R[:, None] + R[None, :]
    sr2 = sr * sr
    for g, gb in enumerate(gbs):
        gb = np.array(gb, dtype=float)
        d = (X + gb[0:3])[:, None, :] - X[None, :, :]          # d[i,j] = x_i + gb - x_j
        dv = (V + gb[3:6])[:, None, :] - V[None, :, :]
        r2 = (d * d).sum(-1)
        if mode in ('direct', 'tree'):
            dot = (d * dv).sum(-1)
            nd = np.sqrt(r2) * np.sqrt((dv * dv).sum(-1))
            tol = AMB * np.maximum(sr2, r2) + 1e-300
            ov_def = r2 < sr2 - tol
            ov_amb = np.abs(r2 - sr2) <= tol
            ap_def = dot < -AMB * nd
            ap_amb = np.abs(dot) <= AMB * nd
            required = ov_def & ap_def
            allowed = (ov_def | ov_amb) & (ap_def | ap_amb)
        else:
            dvv = (dv * dv).sum(-1)
            with np.errstate(all='ignore'):
                tc = np.where(dvv > 0, (d * dv).sum(-1) / np.where(dvv > 0, dvv, 1.0), 0.0)
            lo, hi = min(0.0, dt_last), max(0.0, dt_last)
            tcl = np.clip(tc, lo, hi)
            d3 = d - tcl[:, :, None] * dv
            rmin2 = (d3 * d3).sum(-1)
            dend = d - dt_last * dv
            rmin2 = np.minimum(rmin2, np.minimum(r2, (dend * dend).sum(-1)))
            # cancellation in d - t dv: the absolute error is eps * (|d| + |t dv|)^2-ish
            mag = (np.sqrt(r2) + abs(dt_last) * np.sqrt(dvv)) ** 2
            tol = AMB * np.maximum(np.maximum(sr2, rmin2), mag * 1e-4) + 1e-300
            required = rmin2 < sr2 - tol
            allowed = rmin2 <= sr2 + tol
        for i, j in zip(*np.nonzero(allowed)):
            if i != j:
                alw.add((int(i), int(j), g))
        for i, j in zip(*np.nonzero(required)):
            if i != j:
                req.add((int(i), int(j), g))
    return req, alw


def run_hybrid(case):
    """Collisions inside the close-encounter phase of the hybrid integrators (MERCURIUS, TRACE): there the search runs after every
    sub-step of the encounter integration, over the encounter group only, through an index map that is fixed up after every removal.
    Observation points (all public callbacks, no source change): the resolve callback (wrapping the built-in resolver), the
    additional_forces callback (every force evaluation: reads the group) and, for MERCURIUS, post_timestep_modifications, which the
    encounter loop calls right after each sub-step's search.
      group     after a removal the group, as identities, must be the group before minus the removed identity - at every later observation
                of the step (a wrong fix-up drops the merger product or pulls in a bystander for the rest of the step);
      detection per search pass: the state at the first callback of a pass (MERCURIUS: also at the hook of a pass without callbacks) is the
                state the search ran on; brute-force classification restricted to the expected group: presented subset-of allowed, required subset-of presented;
      resolve   pair conservation across the built-in merge, indices valid, nobody removed twice, survivors = initial - removed."""
    import ctypes, warnings
    warnings.simplefilter('ignore')
    import rebound
    from rebound import clibrebound as clib
    from rebound.simulation import CollisionS
    r = random.Random(case['seed'])
    viol = []
    counters = dict(hybrid_steps=0, hybrid_callbacks=0, hybrid_merges=0, hybrid_group_observations_after_a_removal=0, hybrid_passes_classified=0,
                    hybrid_required_pairs=0, hybrid_steps_with_2plus_removals=0, hybrid_removals_from_noncontiguous_group=0, hybrid_hook_passes_without_callbacks=0)
    cells = set()

    def add(mech, msg):
        if len(viol) < 40:
            viol.append(dict(mech=mech, msg=msg))
    for fn in ('reb_collision_resolve_merge', 'reb_collision_resolve_hardsphere'):
        getattr(clib, fn).restype = ctypes.c_int
        getattr(clib, fn).argtypes = [ctypes.c_void_p, CollisionS]
    for _ in range(case['n']):
        integ = r.choice(['mercurius', 'trace'])
        resolver = r.choice(['merge', 'merge', 'merge', 'hardsphere', 'absorb', 'absorb'])
        d = r.uniform(2.0, 8.0)
        vc = math.sqrt(1.0 / d)
        period = 2 * math.pi * d ** 1.5
        dt = period * r.choice([0.005, 0.015, 0.03]) * r.choice([1, 1, 1, -1])
        if resolver == 'hardsphere':
            dt = abs(dt)          # "approaching" is decided from the velocities: run backwards, a bounce sends the pair INTO each other and the adaptive
                                  # encounter integration keeps bouncing them with ever smaller sub-steps (not a detection question)
        R = d * r.choice([0.001, 0.002, 0.004])
        ang = r.uniform(0, 2 * math.pi)
        ex, ey = math.cos(ang), math.sin(ang)
        bodies = []
        # the target of the group and g-1 impactors aimed at where the target will be after t_k (several of them within the same step)
        g = r.choice([3, 3, 4, 5])
        mt = r.choice([1e-6, 1e-5, 1e-8])
        tgt = dict(m=mt, r=R, x=d * ex, y=d * ey, z=0.0, vx=-ey * vc, vy=ex * vc, vz=0.0)
        bodies.append(tgt)
        for k in range(g - 1):
            tk = abs(dt) * r.choice([r.uniform(0.05, 0.95), r.uniform(0.05, 0.95), r.uniform(1.05, 2.9)])
            sep = r.uniform(3 * R, 0.03 * d)
            th, ph = math.acos(r.uniform(-1, 1)), r.uniform(0, 2 * math.pi)
            u = (math.sin(th) * math.cos(ph), math.sin(th) * math.sin(ph), math.cos(th) * 0.3)
            sg = 1.0 if dt > 0 else -1.0
            miss = [r.uniform(-1, 1) * R * r.choice([0.0, 0.5, 1.5]) for _q in range(3)]
            bodies.append(dict(m=mt * r.choice([1e-3, 1e-2, 0.3, 1.0]) if r.random() < 0.85 else 0.0, r=R * r.choice([0.3, 1.0, 1.0, 2.0]),
                               x=tgt['x'] + sep * u[0], y=tgt['y'] + sep * u[1], z=sep * u[2],
                               vx=tgt['vx'] - sg * (sep * u[0] + miss[0]) / tk, vy=tgt['vy'] - sg * (sep * u[1] + miss[1]) / tk, vz=-sg * (sep * u[2] + miss[2]) / tk))
        nby = r.choice([1, 2, 3, 4])
        for k in range(nby):
            a = d * r.choice([0.3, 0.45, 0.6, 1.6, 2.2, 3.0]) * r.uniform(0.95, 1.05)
            f = r.uniform(0, 2 * math.pi)
            v = math.sqrt(1.0 / a)
            bodies.append(dict(m=r.choice([1e-7, 1e-6, 1e-4]), r=R * 0.1, x=a * math.cos(f), y=a * math.sin(f), z=0.0, vx=-v * math.sin(f), vy=v * math.cos(f), vz=0.0, bystander=1))
        Rstar = R * 0.5
        if resolver == 'absorb':
            # a big star and 2-3 bodies that start INSIDE it, moving inwards: all of them are found by the first search that looks at the star (the
            # end-of-step star search, or TRACE's full-system search in a pericentre step - searches that run WITHOUT an encounter map); the user's
            # resolver removes whatever hits the star, so the pending collisions of that search have to be re-indexed after every removal
            Rstar = 0.05 * d
            for k in range(r.choice([2, 3, 3])):
                th_ = r.uniform(0, 2 * math.pi)
                rr_ = Rstar * r.uniform(0.4, 0.9)
                vin_ = math.sqrt(1.0 / rr_) * r.uniform(0.05, 0.3)
                bodies.append(dict(m=r.choice([1e-9, 1e-7]), r=R * 0.2, x=rr_ * math.cos(th_), y=rr_ * math.sin(th_), z=0.0,
                                   vx=-vin_ * math.cos(th_) - 0.3 * vin_ * math.sin(th_), vy=-vin_ * math.sin(th_) + 0.3 * vin_ * math.cos(th_), vz=0.0, plunger=1))
        order = list(range(len(bodies)))
        if r.random() < 0.8:
            r.shuffle(order)
        sim = rebound.Simulation()
        sim.rand_seed = r.randrange(1, 2 ** 31)
        sim.integrator = integ
        if integ == 'mercurius':
            sim.ri_mercurius.r_crit_hill = r.choice([3.0, 3.0, 5.0])
        else:
            sim.ri_trace.r_crit_hill = r.choice([3.0, 3.0, 5.0])
        sim.dt = dt
        sim.collision = 'direct'
        sim.add(m=1.0, r=Rstar, hash=ctypes.c_uint32(1000))
        for slot, bi in enumerate(order):
            b = bodies[bi]
            sim.add(m=b['m'], r=b['r'], x=b['x'], y=b['y'], z=b['z'], vx=b['vx'], vy=b['vy'], vz=b['vz'], hash=ctypes.c_uint32(1001 + bi))
        sim.move_to_com()
        ri = sim.ri_mercurius if integ == 'mercurius' else sim.ri_trace
        log = []          # events of the current step: ('cb', ...), ('obs', ids), ('hook', ids, snapshot)
        budget = [0]

        def in_encounter(s):
            return (s.ri_mercurius.mode == 1) if integ == 'mercurius' else (s.ri_trace._mode == 1)

        def group(s):
            q = s.ri_mercurius if integ == 'mercurius' else s.ri_trace
            n, m_ = q._encounter_N, q._encounter_map
            out = []
            for i in range(n):
                ix = m_[i]
                out.append(s.particles[ix].hash.value if 0 <= ix < s.N else -1 - ix)
            return out

        def snapshot(s):
            return dict((p.hash.value, (p.x, p.y, p.z, p.vx, p.vy, p.vz, p.r)) for p in s.particles)

        def af(sp):
            s = sp.contents
            if in_encounter(s):
                g_ = group(s)
                if not log or log[-1][0] != 'obs' or log[-1][1] != g_:
                    log.append(('obs', g_, s.t))

        def ptm(sp):
            s = sp.contents
            if in_encounter(s):
                log.append(('hook', group(s), s.t, snapshot(s)))

        def cb(sp, c):
            s = sp.contents
            Nn = s.N
            enc = in_encounter(s)
            ent = dict(p1=c.p1, p2=c.p2, N=Nn, enc=enc, t=s.t, group=group(s) if enc else None, snap=snapshot(s))
            if not (0 <= c.p1 < Nn and 0 <= c.p2 < Nn) or c.p1 == c.p2:
                ent['bad_index'] = True
                log.append(('cb', ent))
                return 0
            pa, pb = s.particles[c.p1], s.particles[c.p2]
            ent['h1'], ent['h2'] = pa.hash.value, pb.hash.value
            before = [(p.x, p.y, p.z, p.vx, p.vy, p.vz, p.r, p.m) for p in (pa, pb)]
            budget[0] -= 1
            if budget[0] < 0:
                # thousands of bounces inside one step (spheres pressed into each other): from here on this user-supplied resolver ignores
                # collisions so that the step ends; the step is counted, the callbacks after this point are not judged for conservation
                ent.update(before=before, after=before, out=0, over_budget=True)
                log.append(('cb', ent))
                return 0
            if resolver == 'absorb' and 1000 in (ent['h1'], ent['h2']):
                out = 2 if ent['h1'] == 1000 else 1            # user resolver: whatever hits the star is removed
                ent['absorbed'] = True
            elif resolver in ('merge', 'absorb'):
                out = clib.reb_collision_resolve_merge(ctypes.addressof(s), c)
                ent['builtin_merge'] = True
            else:
                out = clib.reb_collision_resolve_hardsphere(ctypes.addressof(s), c)
            pa, pb = s.particles[c.p1], s.particles[c.p2]
            ent.update(before=before, after=[(p.x, p.y, p.z, p.vx, p.vy, p.vz, p.r, p.m) for p in (pa, pb)], out=out)
            log.append(('cb', ent))
            return out
        sim.collision_resolve = cb
        sim.additional_forces = af
        if integ == 'mercurius':
            sim.post_timestep_modifications = ptm
        desc0 = '%s resolver %s d %.3f dt %.4f R %.4g group of %d in slots %r, %d bystanders' % (integ, resolver, d, dt, R, g, sorted(1 + order.index(k) for k in range(g)), nby)
        for step in range(r.choice([2, 3, 4])):
            del log[:]
            budget[0] = 3000
            ids0 = [p.hash.value for p in sim.particles]
            try:
                sim.step()
            except Exception as e:
                add('hybrid:step-raises', '%s: %r' % (desc0, e))
                break
            counters['hybrid_steps'] += 1
            if budget[0] < 0:
                counters['hybrid_steps_cut_by_callback_budget'] = counters.get('hybrid_steps_cut_by_callback_budget', 0) + 1
            desc = '%s step %d' % (desc0, step)
            expected = None          # expected group identities once a removal has happened in this step
            removed = []
            pass_t, pass_presented, pass_snap, pass_group, pass_removed = None, None, None, None, None
            touched, exempt = set(), set()
            pass_enc = [True]

            def close_pass():
                if pass_snap is None or pass_group is None:
                    return
                hs = [h for h in pass_group if h in pass_snap]
                P = [pass_snap[h] for h in hs]
                req, alw = classify(P, [(0.0,) * 6], 'direct', 0.0)
                counters['hybrid_passes_classified'] += 1
                counters['hybrid_required_pairs'] += len(req)
                alw_id = set((hs[i], hs[j]) for (i, j, _g) in alw)
                for (h1, h2) in pass_presented:
                    if (h1, h2) not in alw_id and h1 in hs and h2 in hs and (h1, h2) not in exempt:
                        add('hybrid:resolve:pair-not-detected-at-search-time', '%s: identities %r presented at t=%r were not an overlapping approaching pair when that search ran' % (desc, (h1, h2), pass_t))
                gone = set()
                for (h1, h2, rem) in pass_removed:
                    gone.add(rem)
                for (i, j, _g) in (req if pass_enc[0] else ()):        # completeness only where the searched set is known (the encounter group)
                    h1, h2 = hs[i], hs[j]
                    if (h1, h2) in pass_presented:
                        continue
                    if resolver in ('merge', 'absorb') and (h1 in gone or h2 in gone):
                        continue
                    add('hybrid:search:overlapping-pair-of-the-encounter-group-not-handed-to-resolve:%s' % integ, '%s: at t=%r the group members %r overlap while approaching (radii %r, %r) but were never presented in that search pass (presented: %r; removed earlier in the step: %r)' % (
                        desc, pass_t, (h1, h2), pass_snap[h1][6], pass_snap[h2][6], sorted(pass_presented), removed))
            for ev in log:
                if ev[0] == 'cb':
                    e = ev[1]
                    counters['hybrid_callbacks'] += 1
                    if e.get('bad_index'):
                        add('hybrid:resolve:index-out-of-range-or-self', '%s: callback with p1=%d p2=%d while N=%d' % (desc, e['p1'], e['p2'], e['N']))
                        continue
                    if True:
                        if pass_snap is not None and any(e['snap'][h] != pass_snap[h] for h in pass_snap if h not in touched and h in e['snap']):
                            close_pass()            # bodies that no resolution of the current pass has touched have moved: a sub-step lies in between
                            pass_snap = None
                        if pass_snap is None:
                            # first callback of a search pass: the state the search ran on (all collisions of a pass are collected before the first is resolved)
                            pass_t, pass_presented, pass_snap, pass_removed = e['t'], set(), e['snap'], []
                            pass_group = (list(expected) if expected is not None else list(e['group'])) if e['enc'] else list(e['snap'].keys())
                            pass_enc[0] = bool(e['enc'])
                            touched.clear()
                            exempt.clear()
                        if e['h1'] in touched or e['h2'] in touched:
                            # (TRACE repeats the search at the same time when a sub-step is rejected: a pair with a merger product / bounced body of
                            #  this very pass is judged against a state that no longer exists)
                            exempt.add((e['h1'], e['h2']))
                        pass_presented.add((e['h1'], e['h2']))
                        if not e['enc']:
                            counters['hybrid_callbacks_outside_the_encounter_phase'] = counters.get('hybrid_callbacks_outside_the_encounter_phase', 0) + 1
                        if expected is not None and e['enc']:
                            counters['hybrid_group_observations_after_a_removal'] += 1
                            if sorted(e['group']) != sorted(expected):
                                add('hybrid:encounter-group-after-removal-is-not-the-group-minus-the-removed-body:%s' % integ, '%s: group at a later callback %r, expected %r (removed so far %r)' % (desc, e['group'], expected, removed))
                                expected = list(e['group'])
                    if e['h1'] in removed or e['h2'] in removed:
                        add('hybrid:resolve:removed-particle-presented-again', '%s: identities %r presented after one of them was removed this step' % (desc, (e['h1'], e['h2'])))
                    (b1, b2), (a1, a2) = e['before'], e['after']
                    if e['out'] or a1 != b1 or a2 != b2:
                        touched.update((e['h1'], e['h2']))
                    if e.get('absorbed') and e['out']:
                        rem = e['h2'] if e['out'] == 2 else e['h1']
                        counters['hybrid_absorptions_by_the_star'] = counters.get('hybrid_absorptions_by_the_star', 0) + 1
                        if rem in removed:
                            add('hybrid:resolve:particle-removed-twice', '%s: %r' % (desc, rem))
                        if removed and ids0.index(removed[-1]) < max(ids0.index(e['h1']), ids0.index(e['h2'])) and not e['enc']:
                            counters['hybrid_pending_collision_reindexed_after_a_removal_without_map'] = counters.get('hybrid_pending_collision_reindexed_after_a_removal_without_map', 0) + 1
                        removed.append(rem)
                        pass_removed.append((e['h1'], e['h2'], rem))
                        if expected is not None:
                            expected = [h for h in expected if h != rem]
                    if e.get('builtin_merge') and e['out']:
                        counters['hybrid_merges'] += 1
                        lo_ = 0 if e['p1'] < e['p2'] else 1
                        surv = (a1, a2)[lo_]
                        bm = b1[7] + b2[7]
                        sc = max(abs(b1[7]), abs(b2[7]), 1e-300)
                        if any(x != x for x in surv):
                            add('hybrid:merge:nan-after-merge', '%s: masses %r %r: merged particle %r' % (desc, b1[7], b2[7], surv))
                        if gt(abs(surv[7] - bm), 8 * EPS * sc):
                            add('hybrid:merge:mass-not-conserved', '%s: %r + %r -> %r' % (desc, b1[7], b2[7], surv[7]))
                        for k in range(3):
                            mom_b = b1[7] * b1[3 + k] + b2[7] * b2[3 + k]
                            msc = abs(b1[7] * b1[3 + k]) + abs(b2[7] * b2[3 + k]) + 1e-300
                            if gt(abs(surv[7] * surv[3 + k] - mom_b), 64 * EPS * msc):
                                add('hybrid:merge:momentum-not-conserved', '%s: component %d: %r -> %r' % (desc, k, mom_b, surv[7] * surv[3 + k]))
                            com_b = b1[7] * b1[k] + b2[7] * b2[k]
                            csc = abs(b1[7] * b1[k]) + abs(b2[7] * b2[k]) + 1e-300
                            if gt(abs(surv[7] * surv[k] - com_b), 64 * EPS * csc):
                                add('hybrid:merge:centre-of-mass-not-conserved', '%s: component %d: %r -> %r' % (desc, k, com_b, surv[7] * surv[k]))
                        rem = e['h2'] if e['out'] == 2 else e['h1']
                        if rem in removed:
                            add('hybrid:resolve:particle-removed-twice', '%s: %r' % (desc, rem))
                        removed.append(rem)
                        if e['enc']:
                            pass_removed.append((e['h1'], e['h2'], rem))
                            base = expected if expected is not None else e['group']
                            expected = [h for h in base if h != rem]
                            idx = sorted(ids0.index(h) for h in base if h in ids0)
                            if idx and idx != list(range(idx[0], idx[0] + len(idx))):
                                counters['hybrid_removals_from_noncontiguous_group'] += 1
                elif ev[0] in ('obs', 'hook'):
                    if pass_snap is not None:
                        close_pass()            # the search pass that had callbacks ends at the next force evaluation / hook
                    elif ev[0] == 'hook':
                        # a search pass without any callback: the state at the hook is the state the search ran on
                        counters['hybrid_hook_passes_without_callbacks'] += 1
                        pass_t, pass_presented, pass_snap, pass_removed = ev[2], set(), ev[3], []
                        pass_group = list(expected) if expected is not None else list(ev[1])
                        close_pass()
                    pass_t, pass_snap, pass_group = None, None, None
                    if expected is not None:
                        counters['hybrid_group_observations_after_a_removal'] += 1
                        if sorted(ev[1]) != sorted(expected):
                            add('hybrid:encounter-group-after-removal-is-not-the-group-minus-the-removed-body:%s' % integ, '%s: group observed at t=%r is %r, expected %r (removed so far %r; array order at step start %r)' % (desc, ev[2], ev[1], expected, removed, ids0))
                            expected = list(ev[1])
            close_pass()
            if len(removed) >= 2:
                counters['hybrid_steps_with_2plus_removals'] += 1
            ids1 = [p.hash.value for p in sim.particles]
            if len(ids1) != len(set(ids1)):
                add('hybrid:resolve:particle-duplicated', '%s: identities after the step %r' % (desc, ids1))
            if set(ids1) != set(ids0) - set(removed):
                add('hybrid:resolve:survivors-do-not-match-removals', '%s: before %r removed %r after %r' % (desc, ids0, removed, ids1))
            cells.add(json.dumps(['hybrid', integ, resolver, min(len(removed), 3), bool(log)]))
            if sim.N < 3:
                break
    for v in viol:
        v['case_seed'] = case['seed']
    return dict(violations=viol, cells=[json.loads(c) for c in cells], counters=counters, sample=dict(seed=case['seed'], kind='hybrid'))


def run_case(case):
    if case.get('kind') == 'hybrid':
        return run_hybrid(case)
    import ctypes, warnings
    warnings.simplefilter('ignore')
    import rebound
    from rebound import clibrebound as clib
    from rebound.simulation import CollisionS
    from rebound.vectors import Vec6d
    r = random.Random(case['seed'])
    viol = []
    counters = dict(steps=0, callbacks=0, required_pairs=0, ambiguous_pairs=0, steps_with_collisions=0, steps_with_3plus_cluster=0, merges=0, bounces=0, ghost_pairs_required=0,
                    removals=0, unequal_radius_pairs=0, fixup_steps=0)
    cells = set()

    def add(mech, msg):
        if len(viol) < 40:
            viol.append(dict(mech=mech, msg=msg))

    clib.reb_boundary_get_ghostbox.restype = Vec6d
    clib.reb_boundary_get_ghostbox.argtypes = [ctypes.c_void_p, ctypes.c_int, ctypes.c_int, ctypes.c_int]
    for fn in ('reb_collision_resolve_merge', 'reb_collision_resolve_hardsphere'):
        getattr(clib, fn).restype = ctypes.c_int
        getattr(clib, fn).argtypes = [ctypes.c_void_p, CollisionS]

    for _ in range(case['n']):
        mode = r.choice(case['modes'])
        tree = mode in ('tree', 'linetree')
        boundary = r.choice(['open', 'periodic', 'shear']) if (tree or r.random() < 0.6) else 'none'
        resolver = r.choice(case['resolvers'])
        integ = r.choice(['none', 'none', 'leapfrog']) if boundary != 'shear' else r.choice(['none', 'sei'])
        L = 10 ** r.uniform(-1, 2)
        N = r.choice([2, 3, 5, 8, 13, 20, 35])
        equal_r = r.random() < 0.2
        ps = gen_particles(r, L, N, vscale=L * r.choice([0.01, 0.1, 1.0]), zero_r_frac=0.08, equal_r=equal_r)
        sim = rebound.Simulation()
        sim.rand_seed = r.randrange(1, 2 ** 31)
        sim.G = r.choice([0.0, 1e-3]) if resolver != 'record' else 0.0
        nroot = r.choice([(1, 1, 1), (1, 1, 1), (2, 1, 1), (2, 2, 1), (3, 2, 2), (1, 1, 2), (1, 2, 3)]) if boundary != 'none' else None
        Lroot = L
        if boundary != 'none':
            # the box spans nroot * Lroot; keep all particles inside by scaling the root size down
            Lroot = L / max(nroot)
            sim.configure_box(Lroot, *nroot)
            sim.boundary = boundary
            ng = r.choice([0, 1, 1, 2])
            sim.N_ghost_x = ng if boundary != 'open' else 0
            sim.N_ghost_y = (ng if r.random() < 0.8 else 0) if boundary != 'open' else 0
            sim.N_ghost_z = (ng if r.random() < 0.5 else 0) if boundary != 'open' else 0
            bx = [Lroot * q for q in nroot]
            for k_, q in enumerate(ps):
                for ax, b in zip('xyz', bx):
                    q[ax] = min(max(q[ax], -0.4999 * b), 0.4999 * b)
                while any(all(q[ax] == o[ax] for ax in 'xyz') for o in ps[:k_]):
                    q['x'] -= math.copysign(bx[0] * 1e-7 * r.uniform(0.1, 1), q['x'])
        if boundary == 'shear':
            sim.ri_sei.OMEGA = r.choice([1.0, 0.1])
        sim.gravity = 'none' if r.random() < 0.6 else ('tree' if tree and r.random() < 0.5 else 'basic')
        if sim.G == 0.0:
            sim.gravity = 'none'
        sim.collision = mode
        sim.integrator = integ
        keep_sorted = r.choice([0, 1]) if not tree else 0
        sim.collision_resolve_keep_sorted = keep_sorted
        late_radii = r.random() < 0.25          # radii assigned (or changed) through the particle after it was added
        for k, q in enumerate(ps):
            sim.add(m=q['m'], x=q['x'], y=q['y'], z=q['z'], vx=q['vx'], vy=q['vy'], vz=q['vz'], r=(q['r'] * r.choice([0.0, 0.1, 1.0]) if late_radii else q['r']), hash=ctypes.c_uint32(1000 + k))
        if late_radii:
            counters['systems_with_radii_set_after_add'] = counters.get('systems_with_radii_set_after_add', 0) + 1
            for k, q in enumerate(ps):
                sim.particles[k].r = q['r']
        sim.dt = r.choice([1e-3, 1e-2, 0.1]) * r.choice([1, 1, -1])
        sim.softening = 1e-3 * L
        if r.random() < 0.15:
            sim.t = -sim.dt          # a step that ends exactly at t = 0 (the default last_collision value)
        log = []
        state = {}

        def snapshot(s):
            return [(p.x, p.y, p.z, p.vx, p.vy, p.vz, p.r, p.m, p.hash.value) for p in s.particles]

        def cb(sp, c):
            s = sp.contents
            if 'first' not in state:
                state['first'] = snapshot(s)
            Nn = s.N
            ent = dict(p1=c.p1, p2=c.p2, gb=(c.gb.x, c.gb.y, c.gb.z, c.gb.vx, c.gb.vy, c.gb.vz), N=Nn)
            if not (0 <= c.p1 < Nn and 0 <= c.p2 < Nn) or c.p1 == c.p2:
                ent['bad_index'] = True
                log.append(ent)
                return 0
            pa, pb = s.particles[c.p1], s.particles[c.p2]
            ent['h1'], ent['h2'] = pa.hash.value, pb.hash.value
            ent['nan'] = (pa.y != pa.y) or (pb.y != pb.y)
            before = [(p.x, p.y, p.z, p.vx, p.vy, p.vz, p.r, p.m) for p in (pa, pb)]
            out = 0
            if resolver == 'merge':
                out = clib.reb_collision_resolve_merge(ctypes.addressof(s), c)
            elif resolver == 'hardsphere':
                out = clib.reb_collision_resolve_hardsphere(ctypes.addressof(s), c)
            pa, pb = s.particles[c.p1], s.particles[c.p2]
            after = [(p.x, p.y, p.z, p.vx, p.vy, p.vz, p.r, p.m) for p in (pa, pb)]
            ent.update(before=before, after=after, out=out)
            log.append(ent)
            return out

        sim.collision_resolve = cb
        nsteps = r.choice([1, 1, 2, 4]) if integ == 'none' else r.choice([2, 5, 10])
        for step in range(nsteps):
            del log[:]
            state.clear()
            pre = snapshot(sim)
            try:
                sim.step()
                err = None
            except Exception as e:
                err = repr(e)
            post = snapshot(sim)
            counters['steps'] += 1
            S = state.get('first', post if not log else None)
            if S is None:
                continue
            ring = [min(1, sim.N_ghost_x), min(1, sim.N_ghost_y), min(1, sim.N_ghost_z)]
            gbidx = [(a, b, c_) for a in range(-ring[0], ring[0] + 1) for b in range(-ring[1], ring[1] + 1) for c_ in range(-ring[2], ring[2] + 1)]
            gbs = []
            for (a, b, c_) in gbidx:
                v = clib.reb_boundary_get_ghostbox(ctypes.addressof(sim), a, b, c_)
                gbs.append((v.x, v.y, v.z, v.vx, v.vy, v.vz))
            live = [k for k, p in enumerate(S) if p[1] == p[1]]          # flagged (NaN y) particles of a previous step in tree mode
            P = [S[k][:7] for k in live]
            req, alw = classify(P, gbs, 'direct' if mode in ('direct', 'tree') else 'line', sim.dt_last_done)
            hs = [S[k][8] for k in live]
            counters['required_pairs'] += len(req)
            counters['ambiguous_pairs'] += len(alw) - len(req)
            counters['ghost_pairs_required'] += sum(1 for (i, j, g) in req if any(gbidx[g]))
            counters['unequal_radius_pairs'] += sum(1 for (i, j, g) in req if max(P[i][6], P[j][6]) > 10 * min(P[i][6], P[j][6]))
            if req:
                counters['steps_with_collisions'] += 1
            deg = {}
            for (i, j, g) in req:
                deg[i] = deg.get(i, 0) + 1
            if any(v >= 4 for v in deg.values()) or (mode in ('line',) and any(v >= 2 for v in deg.values())):
                counters['steps_with_3plus_cluster'] += 1
            counters['callbacks'] += len(log)
            desc = ('radii set after add; ' if late_radii else '') + 'mode %s boundary %s ghost %r roots %r integ %s resolver %s keep_sorted %d N %d step %d dt %r L %r' % (mode, boundary, ring, nroot, integ, resolver, keep_sorted, len(S), step, sim.dt_last_done, L)

            def gindex(gb):
                best, bd = None, None
                for g, q in enumerate(gbs):
                    dd = max(abs(q[k] - gb[k]) for k in range(6))
                    if bd is None or dd < bd:
                        best, bd = g, dd
                return best if bd is not None and bd <= 1e-9 * (1 + max(abs(x) for x in gb)) else None

            # identity based views
            req_id = set((hs[i], hs[j], g) for (i, j, g) in req)
            alw_id = set((hs[i], hs[j], g) for (i, j, g) in alw)
            found_id = set()
            removed = []
            alive = set(hs)
            any_removal = False
            for e in log:
                if e.get('bad_index'):
                    add('resolve:index-out-of-range-or-self', '%s: callback with p1=%d p2=%d while N=%d' % (desc, e['p1'], e['p2'], e['N']))
                    continue
                g = gindex(e['gb'])
                if g is None:
                    add('search:ghost-box-not-in-inner-ring', '%s: callback gb %r' % (desc, e['gb']))
                    continue
                key = (e['h1'], e['h2'], g)
                if e['h1'] not in alive or e['h2'] not in alive:
                    add('resolve:removed-particle-presented-again', '%s: identities %r presented after one of them was removed this step' % (desc, key[:2]))
                found_id.add(key)
                if key not in alw_id:
                    add('resolve:pair-not-detected-at-search-time' + (':after-removal' if any_removal else ''), '%s: callback presented identities %r (indices %d,%d) which were not an overlapping pair when the search ran' % (desc, key[:2], e['p1'], e['p2']))
                # pair-level conservation across the built-in resolver
                (b1, b2), (a1, a2) = e['before'], e['after']
                if resolver == 'merge' and e['out']:
                    counters['merges'] += 1
                    lo_, hi_ = (0, 1) if e['p1'] < e['p2'] else (1, 0)
                    want_out = 2 if e['p1'] < e['p2'] else 1
                    if e['out'] != want_out:
                        add('merge:removes-lower-index', '%s: outcome %d for indices %d,%d' % (desc, e['out'], e['p1'], e['p2']))
                    bm = b1[7] + b2[7]
                    surv = (a1, a2)[lo_]
                    if bm == 0:
                        counters['massless_merges'] = counters.get('massless_merges', 0) + 1
                    if any(x != x for x in surv):
                        add('merge:nan-after-merge', '%s: masses %r %r: merged particle %r' % (desc, b1[7], b2[7], surv))
                    sc = max(abs(b1[7]), abs(b2[7]), 1e-300)
                    if gt(abs(surv[7] - bm), 8 * EPS * sc):
                        add('merge:mass-not-conserved', '%s: %r + %r -> %r' % (desc, b1[7], b2[7], surv[7]))
                    for k in range(3):
                        mom_b = b1[7] * b1[3 + k] + b2[7] * b2[3 + k]
                        mom_a = surv[7] * surv[3 + k]
                        msc = abs(b1[7] * b1[3 + k]) + abs(b2[7] * b2[3 + k]) + 1e-300
                        if gt(abs(mom_a - mom_b), 64 * EPS * msc):
                            add('merge:momentum-not-conserved', '%s: component %d: %r -> %r' % (desc, k, mom_b, mom_a))
                        com_b = b1[7] * b1[k] + b2[7] * b2[k]
                        com_a = surv[7] * surv[k]
                        csc = abs(b1[7] * b1[k]) + abs(b2[7] * b2[k]) + 1e-300
                        if gt(abs(com_a - com_b), 64 * EPS * csc):
                            add('merge:centre-of-mass-not-conserved', '%s: component %d: %r -> %r' % (desc, k, com_b, com_a))
                    rem = e['h2'] if e['out'] == 2 else e['h1']
                    removed.append(rem)
                    alive.discard(rem)
                    any_removal = True
                elif resolver == 'hardsphere' and a1 == b1 and a2 == b2 and b1[7] + b2[7] > 0 and not e.get('nan'):
                    # the resolver left the pair untouched: legitimate only if, in the state it was handed, the pair is not (clearly) approaching
                    # or not (clearly) overlapping any more - earlier bounces of the same step may have changed that
                    gbv_ = e['gb']
                    dx_ = [b1[k] + gbv_[k] - b2[k] for k in range(3)]
                    dv_ = [b1[3 + k] + gbv_[3 + k] - b2[3 + k] for k in range(3)]
                    dot_ = sum(dx_[k] * dv_[k] for k in range(3))
                    nn_ = math.sqrt(sum(q * q for q in dx_) * sum(q * q for q in dv_))
                    r2_ = sum(q * q for q in dx_)
                    sr_ = b1[6] + b2[6]
                    counters['hardsphere_callbacks_left_untouched'] = counters.get('hardsphere_callbacks_left_untouched', 0) + 1
                    if dot_ < -1e-9 * nn_ and r2_ < sr_ * sr_ * (1 - 1e-9) and mode in ('direct', 'tree'):
                        add('hardsphere:overlapping-approaching-pair-left-unresolved', '%s: pair (%r,%r) overlaps (|dx|=%r < %r) and approaches (dx.dv=%r) when handed to the hard-sphere resolver, which returned without changing it' % (desc, e['h1'], e['h2'], math.sqrt(r2_), sr_, dot_))
                elif resolver == 'hardsphere' and (a1 != b1 or a2 != b2):
                    counters['bounces'] += 1
                    if b1[7] + b2[7] == 0:
                        counters['massless_bounces'] = counters.get('massless_bounces', 0) + 1
                    if any(x != x for w in (a1, a2) for x in w):
                        add('hardsphere:nan-after-bounce', '%s: masses %r %r: state after the bounce %r %r' % (desc, b1[7], b2[7], a1, a2))
                        continue
                    mt = b1[7] + b2[7]
                    if mt > 0:
                        for k in range(3):
                            mom_b = b1[7] * b1[3 + k] + b2[7] * b2[3 + k]
                            mom_a = a1[7] * a1[3 + k] + a2[7] * a2[3 + k]
                            msc = sum(w[7] * math.sqrt(w[3] ** 2 + w[4] ** 2 + w[5] ** 2) for w in (b1, b2, a1, a2)) + 1e-300
                            if not abs(mom_a - mom_b) <= 256 * EPS * msc:
                                add('hardsphere:momentum-not-conserved', '%s: component %d: %r -> %r (masses %r %r)' % (desc, k, mom_b, mom_a, b1[7], b2[7]))
                        # kinetic energy in the frame of the pair's centre of mass (restitution 1, no minimum velocity)
                        def ke(p_, q_):
                            p_ = list(p_[:3]) + [p_[3 + k] + e['gb'][3 + k] for k in range(3)] + list(p_[6:])    # p1 as seen through its ghost box (shear: moving image)
                            vc = [(p_[7] * p_[3 + k] + q_[7] * q_[3 + k]) / mt for k in range(3)]
                            return sum(0.5 * w[7] * sum((w[3 + k] - vc[k]) ** 2 for k in range(3)) for w in (p_, q_))
                        kb, ka = ke(b1, b2), ke(a1, a2)
                        klab = sum(0.5 * w[7] * sum((w[3 + k] + (e['gb'][3 + k] if w is b1 or w is a1 else 0.0)) ** 2 for k in range(3)) for w in (b1, b2, a1, a2))
                        if not abs(ka - kb) <= 1e-9 * max(kb, 1e-300) + 1024 * EPS * klab:
                            add('hardsphere:kinetic-energy-changed-at-restitution-1', '%s: %r -> %r (masses %r %r)' % (desc, kb, ka, b1[7], b2[7]))
                    gbv = e['gb']
                    dx = [a1[k] + gbv[k] - a2[k] for k in range(3)]
                    dvv = [a1[3 + k] + gbv[3 + k] - a2[3 + k] for k in range(3)]
                    dot = sum(dx[k] * dvv[k] for k in range(3))
                    nn = math.sqrt(sum(q * q for q in dx) * sum(q * q for q in dvv))
                    if not dot >= -1e-9 * nn:
                        add('hardsphere:pair-still-approaching', '%s: after the bounce dx.dv = %r (|dx||dv| = %r), masses %r %r' % (desc, dot, nn, b1[7], b2[7]))
            if len(removed) != len(set(removed)):
                add('resolve:particle-removed-twice', '%s: removed identities %r' % (desc, removed))
            counters['removals'] += len(removed)
            if any_removal and len(log) > 2:
                counters['fixup_steps'] += 1
            # F subset-of A was checked per callback; completeness:
            if tree and keep_sorted:
                pass
            for (h1, h2, g) in req_id:
                if resolver == 'merge' and (h1 not in alive or h2 not in alive):
                    continue          # legitimately dropped: a member was removed earlier in this step
                if mode == 'direct':
                    ok = (h1, h2, g) in found_id
                elif mode == 'line':
                    i1, i2 = hs.index(h1), hs.index(h2)
                    if not i1 < i2:
                        continue
                    ok = (h1, h2, g) in found_id
                else:
                    ga = gbidx[g]
                    gneg = gbidx.index((-ga[0], -ga[1], -ga[2]))
                    ok = (h1, h2, g) in found_id or (h2, h1, gneg) in found_id
                if not ok:
                    i1, i2 = hs.index(h1), hs.index(h2)
                    add('search:overlapping-pair-not-handed-to-resolve:%s%s%s%s' % (mode, ':ghost' if any(gbidx[g]) else '', ':after-removal' if any_removal else '', ':radii-set-after-add' if late_radii else (':after-earlier-mergers' if step > 0 and resolver == 'merge' else '')),
                        '%s: pair idx (%d,%d) radii (%r,%r) ghost %r required by the brute-force rule but never presented; %d callbacks' % (desc, i1, i2, P[i1][6], P[i2][6], gbidx[g], len(log)))
            # step-level bookkeeping and conservation
            postlive = [p for p in post if p[1] == p[1]]
            ph = [p[8] for p in postlive]
            if len(ph) != len(set(ph)):
                add('resolve:particle-duplicated', '%s: identities after the step %r' % (desc, ph))
            if set(ph) != set(hs) - set(removed):
                add('resolve:survivors-do-not-match-removals', '%s: before %d, removed %r, after %r missing %r extra %r' % (desc, len(hs), removed, len(ph), sorted(set(hs) - set(removed) - set(ph)), sorted(set(ph) - (set(hs) - set(removed)))))
            if resolver in ('merge', 'hardsphere') and log:
                Sl = [S[k] for k in live]
                m0, m1 = sum(p[7] for p in Sl), sum(p[7] for p in postlive)
                if resolver == 'merge' and not abs(m1 - m0) <= 64 * EPS * len(Sl) * max(m0, 1e-300):
                    add('step:total-mass-changed', '%s: %r -> %r' % (desc, m0, m1))
                for k in range(3):
                    q0 = sum(p[7] * p[3 + k] for p in Sl)
                    q1 = sum(p[7] * p[3 + k] for p in postlive)
                    # the resolvers rotate into the line of centres and back: rounding in one component scales with the whole momentum vector
                    qs = sum(abs(p[7] * p[3 + j]) for p in Sl for j in range(3)) + 1e-300
                    if not abs(q1 - q0) <= 1024 * EPS * len(Sl) * qs:
                        add('step:total-momentum-changed:%s' % resolver, '%s: component %d %r -> %r' % (desc, k, q0, q1))
                    if resolver == 'merge':
                        c0 = sum(p[7] * p[k] for p in Sl)
                        c1 = sum(p[7] * p[k] for p in postlive)
                        cs = sum(abs(p[7] * p[k]) for p in Sl) + 1e-300
                        if not abs(c1 - c0) <= 1024 * EPS * len(Sl) * cs:
                            add('step:centre-of-mass-changed:merge', '%s: component %d %r -> %r' % (desc, k, c0, c1))
            cells.add(json.dumps([mode, boundary, resolver, integ, keep_sorted, bool(req), bool(removed)]))
            if err and 'ollision' not in err:
                counters['step_errors'] = counters.get('step_errors', 0) + 1
                break
            if sim.N < 2:
                break
    for v in viol:
        v['case_seed'] = case['seed']
    return dict(violations=viol, cells=[json.loads(c) for c in cells], counters=counters, sample=dict(seed=case['seed']))


def main(tier, seed):
    V = core.Verdict(PROPERTY, tier, seed)
    r = core.rng(PROPERTY, seed)
    nb = 400 if tier == 'quick' else 5000
    cases = {'rel': [], 'asan': []}
    for i in range(nb):
        cases['rel'].append(dict(seed=r.getrandbits(40), n=8, modes=['direct', 'line', 'tree', 'linetree'], resolvers=['record', 'merge', 'hardsphere']))
    for i in range(max(8, nb // 10)):
        cases['asan'].append(dict(seed=r.getrandbits(40), n=6, modes=['direct', 'line', 'tree', 'linetree'], resolvers=['merge', 'merge', 'hardsphere']))
    for i in range(160 if tier == 'quick' else 2400):
        cases['asan' if i % 8 == 7 else 'rel'].append(dict(kind='hybrid', seed=r.getrandbits(40), n=6))
    for variant, cs in cases.items():
        res = core.run_cases('checks.c13_collisions', variant, cs, timeout_case=120)
        from checks.c14_bookkeeping import crash_mech
        for c, rr in zip(cs, res):
            V.absorb(c, rr, crash_mech=crash_mech)
    inc = []
    for k in ('steps', 'callbacks', 'required_pairs', 'steps_with_collisions', 'steps_with_3plus_cluster', 'merges', 'bounces', 'ghost_pairs_required', 'removals', 'unequal_radius_pairs', 'fixup_steps',
              'hybrid_merges', 'hybrid_group_observations_after_a_removal', 'hybrid_passes_classified', 'hybrid_required_pairs', 'hybrid_steps_with_2plus_removals',
              'hybrid_removals_from_noncontiguous_group', 'hybrid_hook_passes_without_callbacks', 'hybrid_absorptions_by_the_star',
              'hybrid_callbacks_outside_the_encounter_phase', 'hybrid_pending_collision_reindexed_after_a_removal_without_map'):
        if V.counters.get(k, 0) == 0:
            inc.append('monitor counter %s is zero' % k)
    return V.finish(
        rule="random boxes (size over 3 decades, 1..12 root boxes) x clusters/chains of overlapping spheres (radii over 3 decades, zero, giants, equal) near faces/edges/corners x "
             "{direct, line, tree, linetree} x {none, open, periodic, shear} boundaries x ghost rings 0/1/2 x {record, merge, hardsphere} x keep_sorted 0/1 x integrators none/leapfrog/sei; "
             "distinct = (mode, boundary, resolver, integrator, keep_sorted, had required pairs, had removals)",
        assumptions=["pairs within 1e-10 relative of a threshold are ambiguous (allowed, not required)", "ghost-box shifts are taken from reb_boundary_get_ghostbox (decided by C15)"], floor=40, inconclusive_if=inc)


def replay(path):
    return 1
