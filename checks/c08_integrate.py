"""C08 - integrate() honours its time, step-size and status contract.

A heartbeat callback (REBOUND's own hook, called at every step boundary) logs (steps_done, t, dt, hash of the state); the harness
snapshots (t, dt, steps_done, persisted state) around the call, which is made through the C entry point so the returned
status code itself is observed.  Offline assertions over the log:
  direction (time never moves against tmax-t0), no-op when tmax==t0, end time (exact: |t-tmax| <= 1e-12 scale; otherwise past
  tmax by less than one step and the previous boundary strictly before it), dt restored (fixed step: bitwise |dt|, sign of the
  direction; adaptive: not the shortened remainder), fixed-step step count and boundary times, split equivalence (consecutive
  integrate calls without exact finishing == one call, bitwise, boundary by boundary), and exit statuses (escape, encounter,
  halting collision, no particles, user stop): returned at the FIRST boundary at which the harness sees the condition true,
  with that condition's code.
"""
import json, math, random
from vf import core, gen
from vf.num import gt, nmax as max, nmin as min

PROPERTY = "C08"
EPS = 2.0 ** -52
FIXED = ['whfast', 'saba', 'eos', 'leapfrog', 'mercurius', 'janus', 'sei_like_none']
STATUS = {0: 'SUCCESS', 1: 'GENERIC_ERROR', 2: 'NO_PARTICLES', 3: 'ENCOUNTER', 4: 'ESCAPE', 5: 'USER', 6: 'SIGINT', 7: 'COLLISION'}


def run_case(case):
    import ctypes, warnings
    from ctypes import c_double, byref
    warnings.simplefilter('ignore')
    import rebound
    from rebound import clibrebound as clib
    from vf import rt
    r = random.Random(case['seed'])
    viol = []
    counters = dict(calls=0, boundaries=0, last_step_shrunk=0, split_runs=0, status_cases=0, noop_calls=0, step_count_checked=0, step_count_ambiguous=0)
    cells = set()
    clib.reb_simulation_integrate.restype = ctypes.c_int

    def add(mech, msg):
        if len(viol) < 40:
            viol.append(dict(mech=mech, msg=msg))

    def drain(sim):
        buf = ctypes.create_string_buffer(4096)
        clib.reb_simulation_get_next_message.restype = ctypes.c_int
        out = []
        while clib.reb_simulation_get_next_message(byref(sim), buf):
            out.append(buf.value.decode('ascii', 'replace'))
        return out

    def make(integ):
        spec = gen.random_spec(random.Random(r.getrandbits(40)), integ=integ, allow_var=False, nmax=3)
        # default safe mode for the split-equivalence and count monitors; other options random
        for k in list(spec['opts']):
            if k.endswith('safe_mode') or k.endswith('keep_unsynchronized'):
                del spec['opts'][k]
        if integ == 'whfast512':
            spec['sim_opts'] = {'exact_finish_time': 0}
        return spec, gen.build_sim(spec)

    def run(sim, tmax, exact, stop_at=None, cond=None):
        """returns (status, log) ; log entries (steps_done, t, dt, hash)"""
        log = []
        state = dict(n=0)

        def hb(simp):
            s = simp.contents
            log.append((s.steps_done, s.t, s.dt, rt.state_hash(s) if case.get('hash', True) else None, cond(s) if cond else None))
            state['n'] += 1
            if stop_at is not None and state['n'] - 1 == stop_at:
                s.stop()
                state['stopped'] = True
        sim.heartbeat = hb
        sim.exact_finish_time = 1 if exact else 0
        st = clib.reb_simulation_integrate(byref(sim), c_double(tmax))
        msgs = drain(sim)
        sim._heartbeat = type(sim._heartbeat)()       # detach
        run.stopped = state.get('stopped', False)
        return st, log, msgs

    for _ in range(case['n']):
        integ = r.choice(case['integrators'])
        kind = r.choice(['contract', 'contract', 'contract', 'split', 'status', 'noop', 'sequence', 'sequence'])
        fixed = integ in ('whfast', 'saba', 'eos', 'leapfrog', 'mercurius', 'janus', 'whfast512', 'trace')
        truly_fixed = integ in ('whfast', 'saba', 'eos', 'leapfrog', 'janus', 'whfast512')   # MERCURIUS/TRACE keep dt fixed too but are hybrid
        if integ == 'whfast512' and kind in ('status',):
            kind = 'contract'
        spec, sim = make(integ)
        if integ == 'ias15' and r.random() < 0.4:
            # an eccentric inner planet and a floor on the step size: the floor is hit at every pericentre passage
            sim = rebound.Simulation()
            sim.add(m=1.0)
            sim.add(m=1e-4, a=1.0, e=r.uniform(0.85, 0.97), f=r.uniform(2.5, 3.7))
            sim.add(m=1e-4, a=4.0, e=0.1, f=r.uniform(0, 6))
            sim.move_to_com()
            sim.integrator = 'ias15'
            sim.dt = 0.05
            sim.ri_ias15.min_dt = r.choice([1e-2, 3e-2, 1e-3])
            counters['ias15_min_dt_cases'] = counters.get('ias15_min_dt_cases', 0) + 1
        if integ == 'trace' and r.random() < 0.45:
            # an eccentric planet close to pericentre: the steps around it are handed to the pericentre sub-integration (BS or IAS15, which
            # keep their own sub-step sizes); the full step before a shortened last step is then one of those
            sim = rebound.Simulation()
            sim.add(m=1.0)
            sim.add(m=1e-4, a=1.0, e=r.uniform(0.85, 0.97), f=r.uniform(-0.6, 0.6))
            if r.random() < 0.5:
                sim.add(m=1e-4, a=4.0, e=0.1, f=r.uniform(0, 6))
            sim.move_to_com()
            sim.integrator = 'trace'
            sim.dt = r.choice([0.01, 0.02, 0.04])
            sim.ri_trace.peri_mode = r.choice(['FULL_IAS15', 'FULL_IAS15', 'FULL_BS', 'PARTIAL_BS'])
            counters['trace_pericentre_cases'] = counters.get('trace_pericentre_cases', 0) + 1
        if integ == 'mercurius' and r.random() < 0.3:
            # two planets inside each other's Hill sphere: every step runs the IAS15 encounter sub-integration
            sim = rebound.Simulation()
            sim.add(m=1.0)
            sim.add(m=1e-4, a=1.0, f=0.0)
            sim.add(m=1e-4, a=r.uniform(1.01, 1.04), f=r.uniform(-0.01, 0.01))
            sim.move_to_com()
            sim.integrator = 'mercurius'
            sim.dt = r.choice([0.01, 0.03])
            counters['mercurius_encounter_cases'] = counters.get('mercurius_encounter_cases', 0) + 1
        dt0 = sim.dt
        counters['calls'] += 1
        if kind == 'sequence':
            # consecutive integrate() calls on one simulation: after EVERY call dt must be the user's step (fixed-step schemes),
            # also when the previous call ended with a shortened last step and the next interval is shorter than one step
            if not fixed or integ == 'whfast512':
                kind = 'contract'
            else:
                counters['sequence_runs'] = counters.get('sequence_runs', 0) + 1
                direction = r.choice([1, -1])
                t_cur = sim.t
                for j in range(r.randint(3, 7)):
                    span = abs(dt0) * r.choice([r.uniform(0.05, 0.9), r.uniform(1.1, 9.9), r.uniform(0.05, 0.9), float(r.randint(1, 5))])
                    tgt = t_cur + direction * span
                    before_steps = sim.steps_done
                    st, log, msgs = run(sim, tgt, exact=True)
                    nsteps = sim.steps_done - before_steps
                    if st != 0:
                        add('integrate:unexpected-status:%s' % STATUS.get(st, st), '%s sequence call %d: %r' % (integ, j, msgs[:2]))
                        break
                    if sim.dt != math.copysign(abs(dt0), direction):
                        add('integrate:dt-not-restored:after-consecutive-calls', '%s: call %d (interval %.3g dt, exact finish): dt after = %r, user dt %r' % (integ, j, span / abs(dt0), sim.dt, math.copysign(abs(dt0), direction)))
                        break
                    want_n = math.ceil(span / abs(dt0) - 1e-9)
                    if abs(span / abs(dt0) - round(span / abs(dt0))) > 1e-6 and nsteps != want_n:
                        add('integrate:step-count:consecutive-calls', '%s: call %d over %.6g dt took %d steps (expected %d)' % (integ, j, span / abs(dt0), nsteps, want_n))
                        break
                    if gt(abs(sim.t - tgt), 1e-12 * max(abs(tgt), 1e-200)):
                        add('integrate:exact-finish-misses-target', '%s sequence call %d: ended at %r target %r' % (integ, j, sim.t, tgt))
                        break
                    t_cur = sim.t
                cells.add(json.dumps(['sequence', integ, direction]))
                continue
        if kind == 'noop':
            counters['noop_calls'] += 1
            if r.random() < 0.5:
                sim.steps(r.randint(1, 5))
                sim.synchronize()
            before = rt.sabin_sim(sim)
            t0, d0, s0 = sim.t, sim.dt, sim.steps_done
            st, log, msgs = run(sim, sim.t, exact=r.random() < 0.5 and integ != 'whfast512')
            after = rt.sabin_sim(sim)
            # bookkeeping of the call itself and lazily initialised integrator internals are not part of the physical state
            dk = [k for k in rt.diff_keys(before, after) if k not in ('functionpointers', 'exact_finish_time', 'dt_last_done', 'gravity', 'gravity_ignore_terms', 'status') and not k.startswith('ri_')]
            if sim.steps_done != s0 or sim.t != t0:
                add('integrate:noop-takes-steps', '%s: integrate(t) advanced steps_done %d->%d t %r->%r' % (integ, s0, sim.steps_done, t0, sim.t))
            elif dk:
                add('integrate:noop-changes-state:%s' % ','.join(dk)[:60], '%s: integrate(tmax==t) changed %r' % (integ, dk))
            if st != 0:
                add('integrate:noop-status', 'status %d' % st)
            cells.add(json.dumps(['noop', integ]))
            continue
        direction = r.choice([1, 1, -1]) if integ != 'whfast512' else 1
        exact = (r.random() < 0.5) and integ != 'whfast512'
        rel = r.choice(['many', 'many', 'few', 'dt_larger_than_interval', 'integer_multiple', 'tiny_interval'])
        nst = {'many': r.uniform(20.3, 300.7), 'few': r.uniform(1.1, 6.9), 'dt_larger_than_interval': r.uniform(0.05, 0.95), 'integer_multiple': float(r.randint(1, 40)), 'tiny_interval': 10 ** r.uniform(-9, -3)}[rel]
        if r.random() < 0.3:
            sim.t = r.choice([1e6, -3.7e4, 123.456, 1e-9])
        t0 = sim.t
        if rel == 'integer_multiple' and r.random() < 0.5:
            tmax = t0
            for _i in range(int(nst)):
                tmax += direction * abs(dt0)        # built by repeated addition: the FP coincidence the property names
        else:
            tmax = t0 + direction * nst * abs(dt0)
        if kind == 'contract' and r.random() < 0.15:
            # the target is tiny next to the start time (the run ends next to t=0): t + (tmax - t) then misses tmax by more than
            # 1e-12 |tmax| and integrate() has to repeat its shortened last step
            rel = 'target_near_zero'
            tmax = r.choice([1, -1]) * 10 ** r.uniform(-14, -5)
            sim.t = tmax - direction * nst * abs(dt0)
            t0 = sim.t
        if tmax == t0:
            counters['degenerate_interval_skipped'] = counters.get('degenerate_interval_skipped', 0) + 1     # the interval rounds to nothing at this |t|: no direction to speak of
            continue
        if kind == 'contract':
            if r.random() < 0.3 and integ != 'whfast512':
                sim.dt = -sim.dt          # user's dt points the wrong way: integrate must flip it
            dt_user = sim.dt
            st, log, msgs = run(sim, tmax, exact)
            counters['boundaries'] += len(log)
            info = '%s dir=%d exact=%d t0=%r tmax=%r dt=%r rel=%s' % (integ, direction, exact, t0, tmax, dt_user, rel)
            if st != 0:
                add('integrate:unexpected-status:%s' % STATUS.get(st, st), '%s: status %d msgs %r' % (info, st, msgs[:2]))
                continue
            ts = [e[1] for e in log]
            # (a) direction
            for i in range(len(ts) - 1):
                if (ts[i + 1] - ts[i]) * direction < 0:
                    mech = 'integrate:time-moves-against-direction'
                    if exact and i == len(ts) - 2 and i >= 1 and abs(ts[i + 1] - ts[i]) <= 4 * EPS * max(abs(t0), abs(ts[i - 1]), abs(tmax)) and abs(ts[i + 1] - tmax) <= (1e-12 * abs(tmax) if 1e-12 * abs(tmax) >= 1e-200 else 1e-12):
                        # the shortened last step landed a rounding error (of the START time's magnitude) past a target that is tiny
                        # next to it; integrate() then repeats the last step with dt = tmax - t < 0 to land on the target
                        mech += ':repeated-last-step-steps-back-over-rounding-overshoot'
                    add(mech, '%s: boundary %d t=%r -> %r' % (info, i, ts[i], ts[i + 1]))
                    break
            t_end = sim.t
            scale = max(abs(tmax), 1e-200)
            if exact:
                tscale = 1e-12 * abs(tmax) if 1e-12 * abs(tmax) >= 1e-200 else 1e-12
                if gt(abs(t_end - tmax), tscale):
                    add('integrate:exact-finish-misses-target', '%s: ended at %r (|diff|=%.3e)' % (info, t_end, abs(t_end - tmax)))
            else:
                over = (t_end - tmax) * direction
                laststep = abs(ts[-1] - ts[-2]) if len(ts) >= 2 else abs(dt0)
                if over < 0:
                    add('integrate:stops-before-target', '%s: ended at %r' % (info, t_end))
                elif over >= max(laststep, abs(dt0)) * (1 + 4 * EPS) and truly_fixed:
                    add('integrate:overshoots-by-a-step-or-more', '%s: ended at %r, overshoot %r >= step %r' % (info, t_end, over, laststep))
                if len(ts) >= 2 and (ts[-2] - tmax) * direction >= 0 and ts[-2] != ts[-1]:
                    add('integrate:takes-a-step-after-reaching-target', '%s: boundary before last %r is already at/past tmax' % (info, ts[-2]))
            # (d) dt restored
            if fixed:
                want = math.copysign(abs(dt_user), direction)
                if sim.dt != want:
                    add('integrate:dt-not-restored:fixed-step', '%s: dt after = %r, user dt %r' % (info, sim.dt, want))
            else:
                if sim.dt * direction <= 0:
                    add('integrate:dt-sign-after', '%s: dt after = %r' % (info, sim.dt))
                if exact and len(ts) >= 3:
                    last = abs(ts[-1] - ts[-2])
                    prev = abs(ts[-2] - ts[-3])
                    if last < 0.5 * prev:       # the final step was clearly shortened to hit tmax
                        counters['last_step_shrunk'] += 1
                        if abs(abs(sim.dt) - last) <= 1e-9 * last:
                            add('integrate:dt-left-at-shortened-last-step:adaptive', '%s: dt after = %r = the shortened last step (previous full step %r)' % (info, sim.dt, prev))
            if fixed and exact and len(ts) >= 3:
                last = abs(ts[-1] - ts[-2])
                if last < abs(dt0) * (1 - 1e-9):
                    counters['last_step_shrunk'] += 1
                    if abs(ts[-2] - ts[-3]) < abs(dt0) * (1 - 1e-9):
                        counters['last_step_repeated'] = counters.get('last_step_repeated', 0) + 1     # two shortened steps in a row
            # (e) fixed step count and boundary times (not exact)
            if truly_fixed and not exact and rel != 'tiny_interval':
                n = len(ts) - 1
                span = abs(tmax - t0)
                ratio = span / abs(dt0)
                if abs(ratio - round(ratio)) <= 8 * EPS * max(ratio, 1) * max(1.0, abs(t0) / span if span else 1) + (ratio + 4) * EPS * (abs(t0) + abs(tmax)) / abs(dt0):      # t is accumulated step by step: one rounding of size eps |t| per step
                    counters['step_count_ambiguous'] += 1
                else:
                    counters['step_count_checked'] += 1
                    if not ((n - 1) * abs(dt0) < span * (1 + 1e-12) and span <= n * abs(dt0) * (1 + 1e-12)):
                        add('integrate:fixed-step-count', '%s: %d steps taken, interval/dt = %r' % (info, n, ratio))
                acc = t0
                for i in range(1, len(ts)):
                    acc += math.copysign(abs(dt0), direction)
                    if gt(abs(ts[i] - acc), 2 * i * EPS * max(abs(ts[i]), abs(t0))):     # t advances in two half steps in some schemes: a few ulp per step
                        add('integrate:boundary-times-not-t0+i*dt', '%s: boundary %d at %r, expected %r' % (info, i, ts[i], acc))
                        break
                if any(e[2] != math.copysign(abs(dt0), direction) for e in log[1:]):
                    add('integrate:dt-changes-during-fixed-step-run', info)
            cells.add(json.dumps(['contract', integ, direction, int(exact), rel]))
        elif kind == 'split':
            if not truly_fixed:
                continue
            counters['split_runs'] += 1
            if integ == 'whfast512':
                # WHFast512 has no safe mode: like WHFast with safe_mode=0 every integrate() ends with a synchronisation that re-rounds the state.
                # Bitwise split equivalence is only meaningful with keep_unsynchronized=1 (the synchronised copy is then discarded).
                spec['opts']['ri_whfast512.keep_unsynchronized'] = 1
                sim = gen.build_sim(spec)
                sim.t = t0
            unsafe_keep = False
            if integ in ('whfast', 'saba') and r.random() < 0.4:
                # deferred synchronisation with keep_unsynchronized=1: every integrate() ends with a synchronise-for-output that must leave
                # the internal state alone, so split calls stay bitwise equal to one call
                unsafe_keep = True
                spec['opts']['ri_%s.safe_mode' % integ] = 0
                spec['opts']['ri_%s.keep_unsynchronized' % integ] = 1
                sim = gen.build_sim(spec)
                sim.t = t0
                counters['split_runs_unsafe_keep'] = counters.get('split_runs_unsafe_keep', 0) + 1
            spec2 = json.loads(json.dumps(spec))
            simA = sim
            simB = gen.build_sim(spec2)
            simB.t = simA.t
            stA, logA, _ = run(simA, tmax, exact=False)
            cuts = sorted(t0 + direction * nst * abs(dt0) * r.random() for _i in range(r.randint(1, 5)))
            if direction < 0:
                cuts = cuts[::-1]
            logB = []
            for c in cuts + [tmax]:
                if (c - simB.t) * direction <= 0:
                    continue            # already past this cut (previous call overshot to its step boundary): calling integrate would reverse time
                stB, lg, _ = run(simB, c, exact=False)
                logB += lg if not logB else lg[1:]       # the first heartbeat of each call repeats the current boundary
            # WHFast512 only writes the particle array when synchronising: per-boundary hashes would compare stale copies
            ha = [(e[0], e[1], e[3] if integ != 'whfast512' and not unsafe_keep else None) for e in logA]
            hb_ = [(e[0], e[1], e[3] if integ != 'whfast512' and not unsafe_keep else None) for e in logB]
            # B may legitimately stop at the same final boundary; compare the common prefix and require the same final state
            m = min(len(ha), len(hb_))
            if ha[:m] != hb_[:m] or len(ha) != len(hb_):
                j = next((i for i in range(m) if ha[i] != hb_[i]), m)
                add('integrate:split-run-differs', '%s t0=%r tmax=%r cuts=%r: single call and split calls differ at boundary %d (of %d/%d): %r vs %r' % (
                    integ, t0, tmax, cuts, j, len(ha), len(hb_), ha[j] if j < len(ha) else None, hb_[j] if j < len(hb_) else None))
            else:
                ca, cb = rt.sabin_sim(simA), rt.sabin_sim(simB)
                dk = [k for k in rt.diff_keys(ca, cb) if k not in ('dt_last_done',)]
                if dk:
                    add('integrate:split-run-final-state-differs:%s' % ','.join(dk)[:60], '%s cuts=%r: %r' % (integ, cuts, dk))
            cells.add(json.dumps(['split', integ, direction, len(cuts)]))
        elif kind == 'status':
            counters['status_cases'] += 1
            which = r.choice(['escape', 'encounter', 'collision', 'no_particles', 'user_stop'])
            if integ in ('janus',) and which == 'collision':
                which = 'escape'
            tmax = t0 + direction * r.uniform(30, 120) * abs(dt0)
            cond = None
            want = None
            ps0 = [(p.x, p.y, p.z) for p in sim.particles]
            if which == 'escape':
                rmax = max(math.sqrt(x * x + y * y + z * z) for x, y, z in ps0)
                lim = rmax * r.uniform(1.0005, 1.05)
                sim.exit_max_distance = lim
                cond = lambda s: any(p.x * p.x + p.y * p.y + p.z * p.z > lim * lim for p in [s.particles[i] for i in range(s.N)])
                want = 4
            elif which == 'encounter':
                N = sim.N
                dmin = min(math.dist(ps0[i], ps0[j]) for i in range(N) for j in range(i))
                lim = dmin * r.uniform(0.9, 0.999)
                sim.exit_min_distance = lim

                def cond(s):
                    P = [(s.particles[i].x, s.particles[i].y, s.particles[i].z) for i in range(s.N)]
                    return any(math.dist(P[i], P[j]) < lim for i in range(len(P)) for j in range(i))
                want = 3
            elif which == 'collision':
                sim.collision = 'direct'
                sim.collision_resolve = 'halt'
                N = sim.N
                dmin = min(math.dist(ps0[i], ps0[j]) for i in range(N) for j in range(i))
                for p in sim.particles:
                    p.r = dmin * r.uniform(0.35, 0.499)
                want = 7
                cond = None
            elif which == 'no_particles':
                del sim.particles
                want = 2
            elif which == 'user_stop':
                want = 5
            stop_at = r.randint(0, 20) if which == 'user_stop' else None
            exact_s = r.random() < 0.5
            if which in ('escape', 'encounter') and r.random() < 0.6 and integ != 'whfast512':
                # aim the limit so that the condition becomes true for the first time at the LAST boundary of an exact-finish call
                # (the one reached by the shortened step): a probe copy is run first and logs the metric at every boundary
                if which == 'escape':
                    metric = lambda s: max(p.x * p.x + p.y * p.y + p.z * p.z for p in [s.particles[i] for i in range(s.N)]) ** 0.5
                else:
                    def metric(s):
                        P = [(s.particles[i].x, s.particles[i].y, s.particles[i].z) for i in range(s.N)]
                        return min(math.dist(P[i], P[j]) for i in range(len(P)) for j in range(i))
                sim.exit_max_distance = 0.0
                sim.exit_min_distance = 0.0
                probe = sim.copy()
                tmax_p = t0 + direction * r.uniform(3.2, 40.7) * abs(dt0)
                stp, plog, _m = run(probe, tmax_p, exact=True, cond=metric)
                vals = [e[4] for e in plog]
                lim2 = None
                if stp == 0 and len(vals) >= 3:
                    if which == 'escape' and vals[-1] > max(vals[:-1]) * (1 + 1e-9):
                        lim2 = math.sqrt(vals[-1] * max(vals[:-1]))
                    if which == 'encounter' and vals[-1] < min(vals[:-1]) * (1 - 1e-9):
                        lim2 = math.sqrt(vals[-1] * min(vals[:-1]))
                if lim2 is not None:
                    lim = lim2
                    tmax = tmax_p
                    exact_s = True
                    counters['status_condition_first_true_at_final_exact_boundary'] = counters.get('status_condition_first_true_at_final_exact_boundary', 0) + 1
                if which == 'escape':
                    sim.exit_max_distance = lim
                else:
                    sim.exit_min_distance = lim
            dt_before_call = sim.dt
            st, log, msgs = run(sim, tmax, exact=exact_s, stop_at=stop_at, cond=cond)
            info = '%s %s dir=%d' % (integ, which, direction)
            # the user's step size is restored whatever the outcome of the call (in particular when the exit condition became true on the
            # shortened last step of an exact-finish call)
            if integ not in ('ias15', 'bs'):
                counters['status_calls_dt_checked'] = counters.get('status_calls_dt_checked', 0) + 1
                if sim.dt != math.copysign(abs(dt_before_call), direction):      # (integrate() gives dt the sign of the direction)
                    add('integrate:dt-not-restored:after-exit-by-status', '%s (exact finish %r): status %d after %d boundaries, dt after = %r, user dt %r' % (info, exact_s, st, len(log), sim.dt, dt_before_call))
            if which in ('escape', 'encounter'):
                first = next((i for i, e in enumerate(log) if e[4]), None)
                if first is None:
                    if st != 0:
                        add('status:%s-reported-but-never-true' % which, '%s: status %d, condition false at all %d boundaries' % (info, st, len(log)))
                else:
                    if st != want:
                        add('status:%s-wrong-code' % which, '%s: condition true at boundary %d, status %d (%s)' % (info, first, st, STATUS.get(st)))
                    elif first != len(log) - 1:
                        add('status:%s-not-at-first-boundary' % which, '%s: condition first true at boundary %d but %d boundaries were run' % (info, first, len(log)))
            elif which == 'user_stop':
                if not run.stopped:
                    counters['user_stop_never_reached'] = counters.get('user_stop_never_reached', 0) + 1
                elif st != 5:
                    add('status:user-stop-wrong-code', '%s: stop() in heartbeat %d, status %d' % (info, stop_at, st))
                elif len(log) - 1 != stop_at and stop_at < len(log):
                    add('status:user-stop-not-immediate', '%s: stop() at boundary %d, integration ran to boundary %d' % (info, stop_at, len(log) - 1))
            elif which == 'no_particles':
                if st != 2:
                    add('status:no-particles-wrong-code', '%s: status %d' % (info, st))
                if gt(len(log), 1):
                    add('status:no-particles-takes-steps', '%s: %d boundaries' % (info, len(log)))
            elif which == 'collision':
                # harness evaluates overlap on the logged final state only if halted
                if st == 7 and integ in ('mercurius', 'trace'):
                    pass            # hybrid schemes detect the overlap inside their encounter sub-integration
                elif st == 7:
                    P = [(p.x, p.y, p.z, p.r) for p in sim.particles]
                    if not any(math.dist(P[i][:3], P[j][:3]) < P[i][3] + P[j][3] for i in range(len(P)) for j in range(i)):
                        add('status:collision-halt-without-overlap', info)
                elif st != 0:
                    add('status:collision-wrong-code', '%s: status %d' % (info, st))
            cells.add(json.dumps(['status', integ, which, st]))
    for v in viol:
        v['case_seed'] = case['seed']
    return dict(violations=viol, cells=[json.loads(c) for c in cells], counters=counters, sample=dict(seed=case['seed'], integrators=case['integrators']))


def main(tier, seed):
    V = core.Verdict(PROPERTY, tier, seed)
    r = core.rng(PROPERTY, seed)
    nb = 720 if tier == "quick" else 8000
    have512 = 'avx512f' in open('/proc/cpuinfo').read()
    cases = {'rel': [], 'avx512': []}
    integs = ['ias15', 'whfast', 'saba', 'eos', 'leapfrog', 'mercurius', 'trace', 'bs', 'janus']
    for i in range(nb):
        cases['rel'].append(dict(seed=r.getrandbits(40), n=40, integrators=integs))
    for i in range(max(2, nb // 12)):
        cases['avx512'].append(dict(seed=r.getrandbits(40), n=40, integrators=['whfast512']))
    for variant, cs in cases.items():
        if variant == 'avx512' and not have512:
            V.inconclusive.append('CPU lacks avx512f: WHFast512 not exercised')
            continue
        res = core.run_cases('checks.c08_integrate', variant, cs, timeout_case=600)
        for c, rr in zip(cs, res):
            V.absorb(c, rr)
    inc = []
    for k in ('calls', 'boundaries', 'last_step_shrunk', 'last_step_repeated', 'split_runs', 'status_cases', 'status_condition_first_true_at_final_exact_boundary', 'noop_calls', 'step_count_checked'):
        if V.counters.get(k, 0) == 0:
            inc.append('monitor counter %s is zero' % k)
    return V.finish(
        rule="random planetary systems x integrator x direction x exact_finish_time x relation of dt to the interval (many/few steps, dt larger than the interval, exact integer multiples built by "
             "repeated addition, tiny intervals, targets next to t=0 far from the start time so that the shortened last step has to be repeated) x start time; plus split runs, no-op calls and exit conditions (escape, encounter, halting collision, no particles, user stop at a chosen boundary); "
             "distinct = (monitor, integrator, direction, exact, relation / cuts / exit condition)",
        assumptions=["the heartbeat is called once at entry and once after every step (read from src/rebound.c)"], floor=40, inconclusive_if=inc)


def replay(path):
    return 1
