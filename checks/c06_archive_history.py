"""C06 - every archive snapshot equals the live state when taken, under any history.

History runner: a generated operation list (integrate / steps / add / remove / remove-all+re-add / switch or reset the
integrator / change settings / add variations / MEGNO / merging collisions / manual snapshot / switch automatic mode)
is applied to a real simulation that appends to one archive.  The *expected* content of snapshot k is the live state
observed at the moment the snapshot is taken: an LD_PRELOAD shim on reb_simulation_save_to_file (cdrv/sa_shim.c, function
boundary, no source change) records reb_simulation_save_to_stream(r) just before every manual or automatic snapshot.
Afterwards (and mid-history) the archive is read back three ways and compared with the expected list:
  (a) independent byte-level parser (blob 0 + delta k overlay);  (b) the real reader through Python: nblobs, t[k] bitwise,
  sabin(save(load k)) for every k in random order;  (c) cadence of automatic snapshots from the per-boundary heartbeat log.
"""
import json, os, random, struct
from vf import core, gen, build as B

PROPERTY = "C06"


def read_shim_log(path, pos):
    out = []
    if not os.path.exists(path):
        return out, pos
    with open(path, 'rb') as f:
        f.seek(pos)
        while True:
            h = f.read(8)
            if len(h) < 8:
                break
            n, = struct.unpack('<Q', h)
            b = f.read(n)
            if len(b) < n:
                break
            out.append(b)
            pos = f.tell()
    return out, pos


def run_long(case):
    """Long archives: more snapshots than any fixed-size index the reader might start with (1024 entries, grown on demand).  A small system writes
    one automatic snapshot per step plus manual ones; count, every per-snapshot time, tmax and a sample of snapshots (around every power of two,
    the last ones) are compared with the live states the shim recorded."""
    import warnings
    warnings.simplefilter('ignore')
    import rebound
    from vf import rt
    r = random.Random(case['hseed'])
    viol = []
    fn = os.path.join(os.getcwd(), 'long_%d_%d.bin' % (os.getpid(), case['hseed'] % 100000))
    log = fn + '.shimlog'
    for p in (fn, log):
        if os.path.exists(p):
            os.unlink(p)
    os.environ['VERIF_SA_LOG'] = log
    sim = rebound.Simulation()
    sim.add(m=1.0)
    sim.add(m=1e-3, a=1.0, e=0.1)
    if r.random() < 0.5:
        sim.add(m=1e-4, a=2.2, e=0.05, f=1.0)
    sim.integrator = r.choice(['leapfrog', 'whfast', 'ias15'])
    sim.dt = 0.01
    n = case['nsnap']
    sim.save_to_file(fn, step=1, delete_file=True)
    n_auto = n - r.choice([0, 1, 3])
    sim.integrate(sim.t + sim.dt * (n_auto - 1) * (1 if sim.integrator != 'ias15' else 0.2), exact_finish_time=0)
    expected, _pos = read_shim_log(log, 0)
    expected = [rt.sabin(b) for b in expected]
    while len(expected) < n:
        sim.steps(1)
        sim.simulationarchive_auto_step = 0
        raw = rt.save_bytes(sim)
        sim.save_to_file(fn)
        expected.append(rt.sabin(raw))
    counters = dict(long_archives=1, long_archive_snapshots=len(expected))
    try:
        with open(fn, 'rb') as f:
            snaps = rt.parse_archive(f.read())
        if len(snaps) != len(expected):
            viol.append(dict(mech='archive:independent-parse-snapshot-count', msg='long archive: file holds %d parseable snapshots, %d were taken' % (len(snaps), len(expected))))
        sa = rebound.Simulationarchive(fn)
        if not viol and sa.nblobs != len(expected):
            viol.append(dict(mech='archive:nblobs:long-archive', msg='reader reports nblobs=%d for an archive of %d snapshots (tmax %r, last snapshot taken at t=%r)' % (sa.nblobs, len(expected), sa.tmax, struct.unpack('<d', expected[-1]['t'])[0])))
        if not viol:
            for k in range(len(expected)):
                et = struct.unpack('<d', expected[k]['t'])[0]
                if rt.dbits(sa.t[k]) != rt.dbits(et):
                    viol.append(dict(mech='archive:index-time', msg='long archive: sa.t[%d]=%r, snapshot was taken at t=%r' % (k, sa.t[k], et)))
                    break
            if rt.dbits(sa.tmax) != rt.dbits(struct.unpack('<d', expected[-1]['t'])[0]):
                viol.append(dict(mech='archive:tmax', msg='long archive: tmax=%r, last snapshot at %r' % (sa.tmax, struct.unpack('<d', expected[-1]['t'])[0])))
            ks = set([0, 1, len(expected) - 1, len(expected) - 2])
            q = 2
            while q < len(expected) + 2:
                ks.update(k_ for k_ in (q - 2, q - 1, q, q + 1) if 0 <= k_ < len(expected))
                q *= 2
            ks.update(r.randrange(len(expected)) for _ in range(10))
            for k in sorted(ks):
                dk = [q_ for q_ in rt.diff_keys(rt.sabin_sim(sa[k]), expected[k]) if q_ != 'functionpointers']
                counters['long_archive_loads'] = counters.get('long_archive_loads', 0) + 1
                if dk:
                    viol.append(dict(mech='snapshot:loaded-state-differs:long-archive', msg='snapshot %d of %d differs from the live state when taken in %r' % (k, len(expected), dk)))
                    break
            last = sa[-1]
            if rt.dbits(last.t) != rt.dbits(struct.unpack('<d', expected[-1]['t'])[0]):
                viol.append(dict(mech='snapshot:loaded-state-differs:negative-index', msg='long archive: sa[-1].t=%r, last snapshot taken at %r' % (last.t, struct.unpack('<d', expected[-1]['t'])[0])))
        del sa
    except Exception as e:
        import traceback
        viol.append(dict(mech='archive:reader-raises:long-archive', msg='%s: %s %s' % (type(e).__name__, e, traceback.format_exc()[-600:])))
    for p in (fn, log):
        if os.path.exists(p):
            os.unlink(p)
    return dict(violations=viol, cell=['long', len(expected) > 1024, len(expected) > 2048, sim.integrator], counters=counters, sample=dict(hseed=case['hseed'], long=len(expected)))


def run_case(case):
    if case.get('long'):
        return run_long(case)
    import ctypes, warnings
    warnings.simplefilter('ignore')
    import rebound
    from vf import rt
    r = random.Random(case['hseed'])
    viol = []
    counters = dict(ops=0, snapshots_manual=0, snapshots_auto=0, readbacks=0, arrays_shrunk=0, arrays_grown=0, fields_vanished=0, fields_reappeared=0,
                    cadence_checked_step=0, cadence_checked_interval=0, histories=1)
    wd = os.getcwd()
    fn = os.path.join(wd, 'arch_%d_%d.bin' % (os.getpid(), case['hseed'] % 100000))
    log = fn + '.shimlog'
    for p in (fn, log):
        if os.path.exists(p):
            os.unlink(p)
    os.environ['VERIF_SA_LOG'] = log
    logpos = 0
    expected = []          # list of dict(canon, raw, kind)
    ops = []
    boundaries = []        # (steps_done, t) at every heartbeat
    auto = None            # dict(mode, value, armed_at_steps, armed_at_t)

    integ0 = r.choice(['ias15', 'whfast', 'leapfrog', 'mercurius', 'saba', 'eos', 'bs', 'trace', 'janus'])
    var_from_start = case['hseed'] % 6 == 3
    if var_from_start:
        integ0 = r.choice(['ias15', 'bs'])
    spec = gen.random_spec(r, integ=integ0, allow_var=False, nmax=3)
    sim = gen.build_sim(spec)
    dirn = -1 if case['hseed'] % 5 == 4 else 1       # a fifth of the histories run backwards in time
    sim.dt = dirn * abs(sim.dt)
    dt0 = sim.dt
    if dirn < 0:
        counters['backward_histories'] = 1
    if spec['integrator'] == 'janus':
        sim.ri_janus.scale_pos = max(sim.ri_janus.scale_pos, 1e-12)     # JANUS has a finite box (2^63*scale); histories add bodies far out
        sim.ri_janus.scale_vel = max(sim.ri_janus.scale_vel, 1e-12)

    def hb(simp):
        s = simp.contents
        boundaries.append((s.steps_done, s.t, 1))
    use_hb = case.get('heartbeat', True)
    if use_hb:
        sim.heartbeat = hb
    has_var = [False]
    collision_on = [False]
    overflow = [False]
    if var_from_start and sim.N >= 2:
        # variational particles (and their configuration) are already part of the FIRST snapshot, against which every later delta is encoded
        v0 = sim.add_variation()
        v0.particles[1].x = 1.0
        has_var[0] = True
        counters['histories_with_variation_in_first_snapshot'] = 1

    def harvest(kind):
        nonlocal logpos
        new, logpos = read_shim_log(log, logpos)
        if os.path.exists(log) and os.path.getsize(log) > (700 << 20):
            # a runaway history (tens of thousands of automatic snapshots): the shim's log of FULL live states approaches the workers' 1 GiB
            # file-size limit, beyond which its writes fail silently (CPython ignores SIGXFSZ) - the expected list would come up short
            overflow[0] = True
        for b in new:
            expected.append(dict(canon=rt.sabin(b), kind=kind))
            counters['snapshots_auto' if kind == 'auto' else 'snapshots_manual'] += 1
        return len(new)

    def manual_snapshot():
        raw = rt.save_bytes(sim)
        expected.append(dict(canon=rt.sabin(raw), kind='manual'))
        counters['snapshots_manual'] += 1
        sim.save_to_file(fn)

    def field_sizes():
        c = rt.sabin_sim(sim)
        return dict((k, len(v)) for k, v in c.items())

    def readback(final):
        """compare archive with expected list. returns False to stop"""
        if overflow[0]:
            counters['histories_not_judged_shim_log_near_file_size_limit'] = 1
            return False
        counters['readbacks'] += 1
        with open(fn, 'rb') as f:
            raw = f.read()
        # (a) independent parser
        try:
            snaps = rt.parse_archive(raw)
        except Exception as e:
            viol.append(dict(mech='archive:unparseable-by-format', msg='independent parser: %s after ops %r' % (e, [o['op'] for o in ops][-8:])))
            return False
        if len(snaps) != len(expected):
            viol.append(dict(mech='archive:independent-parse-snapshot-count', msg='file holds %d parseable snapshots, %d were taken' % (len(snaps), len(expected))))
            return False
        for k, (s, e) in enumerate(zip(snaps, expected)):
            cs = rt.canon(s)
            dk = rt.diff_keys(cs, e['canon'])
            if dk:
                mech = 'snapshot:bytes-differ-from-live-state:' + ','.join(dk)[:60]
                where = []
                for q_ in dk[:3]:
                    a_, b_ = cs.get(q_, b''), e['canon'].get(q_, b'')
                    off_ = next((i_ for i_ in range(min(len(a_), len(b_))) if a_[i_] != b_[i_]), min(len(a_), len(b_)))
                    where.append('%s: %d vs %d bytes, first difference at byte %d (disk %s live %s)' % (q_, len(a_), len(b_), off_, a_[off_ - off_ % 8:off_ - off_ % 8 + 8].hex(), b_[off_ - off_ % 8:off_ - off_ % 8 + 8].hex()))
                viol.append(dict(mech=mech, msg='snapshot %d (%s) on disk differs from the live state when taken in fields %r [%s]' % (k, e['kind'], dk, '; '.join(where))))
                return False
        # (b) the real reader
        try:
            sa = rebound.Simulationarchive(fn)
        except Exception as e:
            viol.append(dict(mech='archive:reader-raises', msg='%s: %s' % (type(e).__name__, e)))
            return False
        if sa.nblobs != len(expected):
            viol.append(dict(mech='archive:nblobs', msg='reader reports nblobs=%d, %d snapshots were taken; ops %r' % (sa.nblobs, len(expected), [o['op'] for o in ops][-10:])))
            return False
        order = list(range(len(expected)))
        random.Random(case['hseed'] + len(expected)).shuffle(order)
        for k in order:
            et = struct.unpack('<d', expected[k]['canon']['t'])[0]
            if rt.dbits(sa.t[k]) != rt.dbits(et):
                viol.append(dict(mech='archive:index-time', msg='sa.t[%d]=%r, snapshot was taken at t=%r' % (k, sa.t[k], et)))
                return False
            try:
                sk = sa[k]
            except Exception as e:
                viol.append(dict(mech='archive:load-raises', msg='loading snapshot %d: %s: %s' % (k, type(e).__name__, e)))
                return False
            ck = rt.sabin_sim(sk)
            dk = [q for q in rt.diff_keys(ck, expected[k]['canon']) if q != 'functionpointers']
            if dk:
                viol.append(dict(mech='snapshot:loaded-state-differs:' + ','.join(dk)[:60], msg='snapshot %d loaded through the reader differs from the live state when taken in %r (load order %r)' % (k, dk, order[:8])))
                return False
        # (b'') iterating the archive (for sim in sa) and negative indices give the same snapshots as sa[k]
        if len(expected) <= 12:
            try:
                k_ = -1
                for k_, sk in enumerate(sa):
                    dk = [q for q in rt.diff_keys(rt.sabin_sim(sk), expected[k_]['canon']) if q != 'functionpointers'] if k_ < len(expected) else ['(too many)']
                    if dk:
                        viol.append(dict(mech='snapshot:loaded-state-differs:by-iteration', msg='element %d of iter(archive) differs from the live state of snapshot %d in %r' % (k_, k_, dk)))
                        return False
                if k_ + 1 != len(expected):
                    viol.append(dict(mech='archive:nblobs:by-iteration', msg='iter(archive) yields %d snapshots, %d were taken' % (k_ + 1, len(expected))))
                    return False
                kn = random.Random(case['hseed'] + 3 * len(expected)).randrange(1, len(expected) + 1)
                dk = [q for q in rt.diff_keys(rt.sabin_sim(sa[-kn]), expected[len(expected) - kn]['canon']) if q != 'functionpointers']
                if dk:
                    viol.append(dict(mech='snapshot:loaded-state-differs:negative-index', msg='sa[-%d] differs from the live state of snapshot %d in %r' % (kn, len(expected) - kn, dk)))
                    return False
                counters['archives_iterated'] = counters.get('archives_iterated', 0) + 1
            except Exception as e:
                viol.append(dict(mech='archive:load-raises:by-iteration', msg='%s: %s' % (type(e).__name__, e)))
                return False
        # (b') loading by TIME: getSimulation(t) is documented to return "the snapshot just before t" (sim.t <= t) - the last snapshot written with a
        # time not after t, also when several snapshots share that time (a manual snapshot right after an automatic one, edits without a step in
        # between; the restart idiom getSimulation(sa.tmax) must resume from the LAST state saved).  Only for archives whose times ascend.
        T_ = [sa.t[k_] for k_ in range(len(expected))]
        if len(T_) >= 2 and all(a_ <= b_ for a_, b_ in zip(T_, T_[1:])) and abs(T_[0]) < 1e300 and abs(T_[-1]) < 1e300:
            rq = random.Random(case['hseed'] * 7 + len(expected))
            distinct = sorted(set(T_))
            shared = [t_ for t_ in distinct if T_.count(t_) > 1]
            queries = rq.sample(distinct, min(4, len(distinct))) + rq.sample(shared, min(3, len(shared)))
            for _ in range(min(3, len(distinct) - 1)):
                i_ = rq.randrange(len(distinct) - 1)
                mid_ = distinct[i_] + (distinct[i_ + 1] - distinct[i_]) * rq.random()
                if distinct[i_] <= mid_ < distinct[i_ + 1]:
                    queries.append(mid_)

            def sig(c_):
                # getSimulation = load + synchronise for output (which runs the integrator's init: it may select the gravity routine and which
                # terms it ignores, and rewrites coordinates and masses from the integrator's internal ones): compare everything else
                d_ = dict((q_, v_) for q_, v_ in c_.items() if not q_.startswith('ri_') and q_ not in ('particles', 'functionpointers', 'gravity', 'gravity_ignore_terms'))
                pb_ = c_.get('particles', b'')
                d_['particles:r,last_collision,hash'] = b''.join(pb_[o_ + 80:o_ + 96] + pb_[o_ + 104:o_ + 108] for o_ in range(0, len(pb_), rt.PARTICLE_SIZE))
                return d_
            for tq in queries:
                kexp = max(k_ for k_ in range(len(T_)) if T_[k_] <= tq)
                nshared = T_.count(T_[kexp])
                counters['loads_by_time'] = counters.get('loads_by_time', 0) + 1
                if nshared > 1:
                    counters['loads_by_time_at_a_time_shared_by_several_snapshots'] = counters.get('loads_by_time_at_a_time_shared_by_several_snapshots', 0) + 1
                try:
                    if hasattr(sa, '_getSnapshotIndex'):
                        bi_, bt_ = sa._getSnapshotIndex(tq)
                        if bi_ != kexp or rt.dbits(bt_) != rt.dbits(T_[kexp]):
                            viol.append(dict(mech='load-by-time:not-the-last-snapshot-at-or-before-t', msg='snapshot index for t=%r is (%d, t=%r); the last snapshot written with time <= t is %d (t=%r, %d snapshots share it); times %r' % (tq, bi_, bt_, kexp, T_[kexp], nshared, T_[max(0, kexp - 3):kexp + 3])))
                            return False
                    sq = sa.getSimulation(tq)
                except Exception as e:
                    viol.append(dict(mech='load-by-time:raises', msg='getSimulation(%r): %s: %s' % (tq, type(e).__name__, e)))
                    return False
                if hasattr(sa, 'getSimulations'):
                    sq2 = list(sa.getSimulations([tq, T_[0]]))
                    # (compared on the fields that synchronising for output does not touch: a history may have added bodies while WHFast/SABA was
                    #  unsynchronised, and the synchronisation of the loaded copy then reads Jacobi slots nobody ever wrote)
                    if len(sq2) != 2 or sig(rt.sabin_sim(sq2[0])) != sig(rt.sabin_sim(sq)):
                        viol.append(dict(mech='load-by-time:getSimulations-differs-from-getSimulation', msg='getSimulations([%r, %r]) gave %d results; first equals getSimulation(%r): %r' % (tq, T_[0], len(sq2), tq, rt.diff_keys(sig(rt.sabin_sim(sq2[0])), sig(rt.sabin_sim(sq))) if sq2 else None)))
                        return False
                dk = rt.diff_keys(sig(rt.sabin_sim(sq)), sig(expected[kexp]['canon']))
                if dk:
                    viol.append(dict(mech='load-by-time:not-the-last-snapshot-at-or-before-t' + (','.join(dk) if os.environ.get('C06_DK') else ''), msg='getSimulation(%r) differs from snapshot %d (the last one with time <= t; %d snapshots share t=%r) in %r' % (tq, kexp, nshared, T_[kexp], dk)))
                    return False
        del sa
        return True

    def check_cadence():
        """Replays the documented schedule over the boundaries at which the integration loop looks at it (= every heartbeat
        boundary inside integrate): a snapshot is due at the first such boundary with steps_done >= next (step mode) or
        t >= next (interval mode, forward time); then next advances by one period. Each due boundary must have produced
        exactly one automatic snapshot carrying that boundary's steps_done / t, and nothing else may have."""
        if not auto or not use_hb:
            return
        bt0 = boundaries[auto['first_boundary']:]
        if any((not (b[1] == b[1])) for b in bt0) or any((bt0[i + 1][1] - bt0[i][1]) * dirn <= 0 and bt0[i + 1][0] > bt0[i][0] for i in range(len(bt0) - 1)) or not (sim.dt * dirn > 0):
            counters['cadence_skipped_time_not_forward'] = counters.get('cadence_skipped_time_not_forward', 0) + 1
            return          # NaN / backward time (e.g. IAS15 fed coinciding particles): the forward schedule is not defined
        autos = [e for e in expected[auto['first_index']:] if e['kind'] == 'auto']
        got = [(struct.unpack('<Q', e['canon']['steps_done'])[0], struct.unpack('<d', e['canon']['t'])[0]) for e in autos]
        bt = boundaries[auto['first_boundary']:]
        want = []
        if auto['mode'] == 'step':
            nxt = auto['armed_at_steps']
            for s, t, _ in bt:
                if nxt <= s:
                    want.append((s, t))
                    nxt += auto['value']
        else:
            nxt = auto['armed_at_t']
            for s, t, _ in bt:
                if nxt * dirn <= t * dirn:
                    want.append((s, t))
                    nxt += dirn * auto['value']
        auto['model_next'] = nxt
        counters['cadence_checked_' + auto['mode']] += len(want)
        if len(got) != len(want) or any(g[0] != w[0] or rt.dbits(g[1]) != rt.dbits(w[1]) for g, w in zip(got, want)):
            j = next((i for i, (g, w) in enumerate(zip(got, want)) if g[0] != w[0] or rt.dbits(g[1]) != rt.dbits(w[1])), min(len(got), len(want)))
            viol.append(dict(mech='cadence:%s-mode' % auto['mode'], msg='automatic snapshots (steps_done,t) %r ... differ from schedule %r ... at position %d (got %d, due %d; armed at steps=%d t=%r every %r)' % (
                got[max(0, j - 1):j + 2], want[max(0, j - 1):j + 2], j, len(got), len(want), auto['armed_at_steps'], auto['armed_at_t'], auto['value'])))

    first_sizes = None
    sizes_prev = None

    fopts = dict((p_, v_) for p_, v_ in spec.get('opts', {}).items() if p_ in ('ri_mercurius.L', 'ri_trace.S', 'ri_trace.S_peri'))

    def do_op(x, N):
        nonlocal auto, sim
        op = None
        if N == 0 and x < 0.30:
            x = 0.35          # nothing to integrate: add instead
        if x < 0.30 and not (sim.dt * dirn > 0 and abs(sim.dt) < 1e300):
            sim.dt = dt0          # an adaptive integrator fed a degenerate state can leave dt=0/NaN; a user would reset it
        if x < 0.22:
            T = abs(sim.dt) * r.choice([1.5, 3.2, 7.9, 20.3]) if sim.integrator not in ('ias15', 'bs', 'trace', 'mercurius') else min(abs(dt0), abs(sim.dt)) * r.choice([2.0, 5.5, 11.0])
            op = dict(op='integrate', T=abs(T), exact=r.choice([0, 1]))
            if os.path.exists(fn) and os.path.getsize(fn) > (256 << 20):
                raise RuntimeError('archive budget exhausted')      # ends the history; the archive written so far is still read back
            import threading, signal
            tm = threading.Timer(6.0, lambda: os.kill(os.getpid(), signal.SIGINT))   # REBOUND's own SIGINT handler ends integrate() cleanly
            tm.start()
            try:
                sim.integrate(sim.t + dirn * abs(T), exact_finish_time=op['exact'])
            finally:
                tm.cancel()
            if auto:
                auto['ran'] = True
            harvest('auto')
        elif x < 0.30:
            op = dict(op='steps', n=r.choice([1, 2, 5]))
            sim.steps(op['n'])
            harvest('auto')
        elif x < 0.40 and not has_var[0] and N < 12:
            aout = 1.0 + 0.8 * N
            op = dict(op='add', a=aout * r.uniform(1.5, 1.9), m=r.choice([0.0, 1e-6, 1e-4]))
            if N == 0 or sim.particles[0].m <= 0:
                sim.add(m=1.0, x=0.3 * N)
            else:
                sim.add(m=op['m'], a=op['a'], e=0.02, f=r.uniform(0, 6.28), primary=sim.particles[0])
        elif x < 0.48 and not has_var[0] and N > 2:
            op = dict(op='remove', i=r.randrange(1, N))
            sim.remove(op['i'])
        elif x < 0.52 and not has_var[0] and N > 1:
            op = dict(op='remove_all_readd', n=r.choice([0, 2, 3]))
            del sim.particles
            if op['n']:
                sim.add(m=1.0)
                for q in range(op['n'] - 1):
                    sim.add(m=1e-5, a=1.0 + 0.7 * q, e=0.01, f=0.3 * q)
        elif x < 0.62:
            integ = r.choice(['ias15', 'whfast', 'leapfrog', 'mercurius', 'saba', 'eos', 'bs', 'trace', 'janus'])
            if has_var[0]:
                integ = r.choice(['ias15', 'bs'])
            o = gen.random_options(r, integ, var=has_var[0], tscale=spec.get('tscale', 1.0))
            op = dict(op='switch_integrator', integ=integ, opts=o)
            sim.integrator = integ
            if integ not in ('mercurius', 'trace'):
                sim.gravity = 'basic'           # MERCURIUS/TRACE install their own gravity routine; a user switching away sets it back
            if integ in ('saba', 'whfast'):
                sim.ri_whfast.coordinates = 'jacobi'
                sim.ri_whfast.kernel = 'default'
                sim.ri_whfast.corrector = 0
                sim.ri_whfast.corrector2 = 0
                sim.ri_whfast.safe_mode = 1
                sim.ri_whfast.keep_unsynchronized = 0
            sim.dt = dt0
            for pth, val in o.items():
                gen.set_path(sim, pth, val)
                if pth in ('ri_mercurius.L', 'ri_trace.S', 'ri_trace.S_peri'):
                    fopts[pth] = val
        elif 0.62 <= x < 0.745 and has_var[0] and sim.N_var_config > 0 and r.random() < 0.5:
            # a member of a variational CONFIGURATION changes between two snapshots and nothing else does: lrescale = -1 is the documented
            # "never rescale" switch; any other value is what an automatic rescaling leaves behind
            vc = sim.var_config[r.randrange(sim.N_var_config)]
            val = r.choice([-1.0, vc.lrescale + 230.25850929940458, 0.0 if vc.lrescale else 12.5])
            op = dict(op='edit_var_config', lrescale=val)
            vc.lrescale = val
            counters['var_config_member_edits'] = counters.get('var_config_member_edits', 0) + 1
            manual_snapshot()
        elif x < 0.70:
            op = dict(op='reset_integrator')
            sim.reset_integrator()
            sim.gravity = 'basic'      # the reset selects IAS15 but leaves the WHFast/MERCURIUS gravity routine selected; REBOUND warns, the user sets it back
            sim.dt = dt0
        elif x < 0.745 and N >= 1:
            # a single member of a single particle is edited between two snapshots with no step in between (naming a particle,
            # changing a mass or a radius): the delta encoder has to notice a change in any persisted member, not only coordinates
            i = r.randrange(N)
            which = r.choice(['hash', 'hash', 'm', 'r', 'x', 'vz', 'last_collision'])
            op = dict(op='edit_particle', i=i, which=which)
            p = sim.particles[i]
            if which == 'hash':
                p.hash = r.choice(['planet%d' % r.randrange(1000), r.getrandbits(32) | 1])
            elif which == 'm':
                p.m = p.m * 1.0000001 + (1e-12 if i else 0.0)
            elif which == 'r':
                p.r = p.r + 1e-6
            elif which == 'last_collision':
                p.last_collision = sim.t + 1e-3
            else:
                setattr(p, which, getattr(p, which) + 1e-9)
            counters['particle_member_edits'] = counters.get('particle_member_edits', 0) + 1
            if r.random() < 0.6:
                manual_snapshot()
                counters['snapshots_right_after_member_edit'] = counters.get('snapshots_right_after_member_edit', 0) + 1
        elif x < 0.78:
            which = r.choice(['dt', 'softening', 'G', 'N_active', 'testparticle_type', 'exit_max_distance'])
            val = {'dt': dt0 * r.choice([0.5, 1.0, 1.3]), 'softening': r.choice([0.0, 1e-4]), 'G': sim.G, 'N_active': r.choice([-1, max(1, N - sim.N_var - 1)]) if N - sim.N_var > 1 else -1,
                   'testparticle_type': 0, 'exit_max_distance': r.choice([0.0, 1e6])}[which]
            op = dict(op='set', which=which, val=val)
            setattr(sim, which, val)
        elif x < 0.83 and not has_var[0] and N >= 2 and sim.integrator in ('ias15', 'bs'):
            op = dict(op='add_variation')
            v = sim.add_variation()
            v.particles[1].x = 1.0
            has_var[0] = True
        elif x < 0.85 and not has_var[0] and 1 <= N < 12 and sim.integrator in ('ias15', 'whfast', 'leapfrog', 'mercurius', 'bs', 'saba'):
            # two small bodies far out on a collision course: they merge within a few steps -> N drops during integrate
            op = dict(op='collision_pair')
            sim.collision = 'direct'
            sim.collision_resolve = 'merge'
            sim.collision_resolve_keep_sorted = 1     # N_active may be set: unsorted removal would move a test particle into the active range
            d = 40.0 + 3.0 * N
            v = 0.05 / max(abs(sim.dt), 1e-300) * 0.2
            sim.add(m=1e-9, r=0.05, x=d, y=0.0, vx=v)
            sim.add(m=2e-9, r=0.05, x=d + 0.3, y=0.0, vx=-v)
            counters['collision_pairs_added'] = counters.get('collision_pairs_added', 0) + 1
        elif x < 0.875 and auto and use_hb and N >= 1 and sim.dt * dirn > 0:
            # the documented restart: run until an automatic snapshot has just been written, lose the process, load the last snapshot
            # of the file, arm the same schedule on the same file again (an unchanged period keeps the restored counter) and carry on:
            # the schedule must continue as if nothing had happened - no snapshot twice, none missing
            op = dict(op='restart_from_last_auto_snapshot')
            got_ = 0
            import threading, signal
            for _ in range(60 if auto['mode'] == 'interval' else auto['value'] + 2):
                if not (abs(sim.dt) < 1e3 * abs(dt0)) or os.path.getsize(fn) > (64 << 20):
                    break             # the history has left the regime of ordinary steps (or the archive is already large): no restart here
                tm = threading.Timer(2.0, lambda: os.kill(os.getpid(), signal.SIGINT))   # REBOUND's own SIGINT handler ends integrate() cleanly
                tm.start()
                try:
                    sim.integrate(sim.t + sim.dt, exact_finish_time=0)      # (only integrate() looks at the schedule)
                finally:
                    tm.cancel()
                got_ = harvest('auto')
                if got_:
                    break
            if not got_:
                counters['restart_not_reached'] = counters.get('restart_not_reached', 0) + 1
                return op
            check_cadence()       # close the books; the model's next due value carries over
            if viol or 'model_next' not in auto:
                return op
            coll_ = sim.collision
            sim = rebound.Simulation(fn)
            if use_hb:
                sim.heartbeat = hb
            for p_, v_ in fopts.items():
                try:
                    gen.set_path(sim, p_, v_)
                except Exception:
                    pass
            if coll_ != 'none':
                sim.collision_resolve = 'merge'
            if auto['mode'] == 'interval':
                sim.save_to_file(fn, interval=auto['value'])
            else:
                sim.save_to_file(fn, step=auto['value'])
            auto = dict(mode=auto['mode'], value=auto['value'], armed_at_steps=auto['model_next'], armed_at_t=auto['model_next'], first_index=len(expected), first_boundary=len(boundaries))
            counters['restarts_from_auto_snapshot'] = counters.get('restarts_from_auto_snapshot', 0) + 1
        elif x < 0.90:
            op = dict(op='manual_snapshot')
            manual_snapshot()
        elif x < 0.97:
            mode = r.choice(['interval', 'step'])
            val = abs(sim.dt) * r.choice([2.5, 6.1, 11.0]) if mode == 'interval' else r.choice([1, 3, 7])
            if sim.integrator in ('ias15', 'bs') and mode == 'interval':
                val = abs(dt0) * r.choice([1.5, 4.0])
            op = dict(op='auto', mode=mode, val=val)
            # only one automatic mode may be active: clear the other first (documented constraint)
            sim.simulationarchive_auto_interval = 0
            sim.simulationarchive_auto_step = 0
            sim.simulationarchive_auto_walltime = 0
            if mode == 'interval':
                sim.save_to_file(fn, interval=abs(val))
            else:
                sim.save_to_file(fn, step=int(val))
            check_cadence()       # close the books on the previous schedule before re-arming
            auto = dict(mode=mode, value=abs(val) if mode == 'interval' else int(val), armed_at_steps=sim.steps_done, armed_at_t=sim.t, first_index=len(expected), first_boundary=len(boundaries))
        return op

    def track_sizes(sz):
        nonlocal sizes_prev
        for f_, n_ in sz.items():
            if f_ in first_sizes and n_ < first_sizes[f_]:
                counters['arrays_shrunk'] += (sizes_prev.get(f_) != n_)
            if f_ in first_sizes and n_ > first_sizes[f_]:
                counters['arrays_grown'] += (sizes_prev.get(f_) != n_)
            if f_ not in sizes_prev and f_ in first_sizes:
                counters['fields_reappeared'] += 1
        for f_ in first_sizes:
            if f_ not in sz and f_ in sizes_prev:
                counters['fields_vanished'] += 1
        sizes_prev = sz

    nops = case['nops']
    sizes_prev = None
    k = -1
    try:
        if case['hseed'] % 2:
            # the first snapshot is not always taken at t=0: after a few steps the integrator's internal arrays (IAS15 predictor and
            # compensated-summation arrays, WHFast p_jh, MERCURIUS dcrit, ...) exist and are part of blob 0, against which every later delta is encoded
            sim.steps(r.choice([1, 2, 5]))
            counters['first_snapshot_after_steps'] = 1
        manual_snapshot()       # blob 0
        first_sizes = field_sizes()
        sizes_prev = dict(first_sizes)
        import time as _time
        t_start = _time.time()
        for k in range(nops):
            if _time.time() - t_start > 15:
                counters['histories_cut_by_budget'] = 1
                break
            x = r.random()
            N = sim.N
            op = None
            try:
                op = do_op(x, N)
            except (RuntimeError, rebound.NoParticles, rebound.Escape, rebound.Encounter, KeyboardInterrupt) as e:
                # the API reported an error for this operation (e.g. NaN in an ODE integration): the history ends here, but the
                # archive written so far must still be consistent - fall through to the final read-back
                counters['histories_ended_by_api_error'] = counters.get('histories_ended_by_api_error', 0) + 1
                harvest('auto')
                break
            if op is None:
                continue
            ops.append(op)
            counters['ops'] += 1
            if os.environ.get('C06_TRACE'):
                print(op, sim.integrator, sim.gravity, sim.N, sim.t, sim.dt, flush=True)
            sz = field_sizes()
            track_sizes(sz)
            if op['op'] in ('manual_snapshot',) and r.random() < 0.3:
                if not readback(False):
                    break
        if not viol:
            # make sure the last state is in the archive, then final read-back
            manual_snapshot()
            if readback(True):
                check_cadence()
    except Exception as e:
        import traceback
        viol.append(dict(mech='harness-or-api:raises:%s' % type(e).__name__, msg='%s after ops %r\n%s' % (e, ops[-5:], traceback.format_exc()[-1500:])))
    for v in viol:
        v['ops'] = ops[-25:]
        v['spec'] = {q: spec[q] for q in spec if q != 'system'}
    for p in (fn, log):
        if os.path.exists(p):
            if os.environ.get('C06_KEEP') and viol:
                os.replace(p, os.path.join(os.environ['C06_KEEP'], os.path.basename(p)))       # debugging aid: keep the witness archive
                continue
            os.unlink(p)
    cell = None
    if len(expected) >= 3:
        cell = [spec['integrator'], int(counters['arrays_shrunk'] > 0), int(counters['arrays_grown'] > 0), int(counters['fields_vanished'] > 0),
                int(counters['fields_reappeared'] > 0), int(counters['snapshots_auto'] > 0), case['variant']]
    return dict(violations=viol, cell=cell, counters=counters, sample=dict(hseed=case['hseed'], first_ops=ops[:10], snapshots=len(expected)))


def plan(tier, seed):
    r = core.rng(PROPERTY, seed)
    n = 1600 if tier == 'quick' else 40000
    out = {'rel': [], 'asan': []}
    for i in range(n):
        variant = 'asan' if i % 5 == 4 else 'rel'
        out[variant].append(dict(hseed=r.getrandbits(40), nops=r.choice([8, 14, 25]) if tier == 'quick' else r.choice([10, 25, 60]), variant=variant, heartbeat=r.random() < 0.8))
    for i in range(6 if tier == 'quick' else 40):
        out['rel' if i % 3 else 'asan'].append(dict(long=True, hseed=r.getrandbits(40), nsnap=r.choice([1020 + r.randrange(12), 1030 + r.randrange(300), 2040 + r.randrange(20), 2100 + r.randrange(900)]), variant='rel' if i % 3 else 'asan'))
    return out


def main(tier, seed):
    from checks.c14_bookkeeping import crash_mech
    V = core.Verdict(PROPERTY, tier, seed)
    for variant, cases in plan(tier, seed).items():
        sh = B.shim('sa_shim', variant)
        pre = sh if variant != 'asan' else B.asan_runtime() + ' ' + sh
        res = core.run_cases('checks.c06_archive_history', variant, cases, timeout_case=300, extra_env={'LD_PRELOAD': pre, 'VERIF_LIBREBOUND': os.path.join(B.build(variant), 'librebound' + B.EXT_SUFFIX)})
        for c, r in zip(cases, res):
            if r and 'crash' in r:
                # C06 is about the archive. A sanitizer report or abort whose stack is inside the archive code is a violation;
                # deaths elsewhere (e.g. an integrator fed an unphysical state by a random history) are counted, not judged here.
                err = r['crash'].get('stderr') or ''
                import re
                frames = re.findall(r'#\d+ 0x[0-9a-f]+ in \w+ (/\S+?):\d+', err)[:6]
                in_archive = any(f.endswith(('simulationarchive.c', 'binarydiff.c', 'input.c', 'output.c', 'fmemopen.c')) for f in frames)
                if not in_archive:
                    V.evaluations += 1
                    V.count('process_deaths_outside_archive_code' if frames else 'process_deaths_unattributed')
                    continue
            V.absorb(c, r, crash_mech)
    inc = []
    for k in ('long_archives', 'long_archive_loads', 'loads_by_time', 'loads_by_time_at_a_time_shared_by_several_snapshots', 'snapshots_auto', 'snapshots_manual', 'readbacks', 'arrays_shrunk', 'arrays_grown', 'fields_vanished', 'fields_reappeared', 'cadence_checked_step', 'cadence_checked_interval'):
        if V.counters.get(k, 0) == 0:
            inc.append('monitor counter %s is zero' % k)
    dead = V.counters.get('process_deaths_outside_archive_code', 0) + V.counters.get('process_deaths_unattributed', 0)
    if dead > max(3, V.evaluations // 100):
        inc.append('%d histories ended in a process death outside the archive code' % dead)
    return V.finish(
        rule="random operation histories on one archive; expected snapshot = live state recorded by a function-boundary shim at the moment of every manual/automatic snapshot; "
             "read back with an independent byte parser and with the real reader (nblobs, t[k] bitwise, every snapshot in random load order) plus cadence of automatic snapshots; "
             "a history counts if >=3 snapshots; distinct = (initial integrator, arrays shrank?, grew?, field vanished?, reappeared?, automatic snapshots?, build)",
        assumptions=["intra-library calls of reb_simulation_save_to_file go through the PLT (checked: objdump) so the shim sees automatic snapshots",
                     "the expected state is what reb_simulation_save_to_stream returns at that moment (C05 checks that function separately)"],
        floor=12, inconclusive_if=inc)


def replay(path):
    return 1
