"""C05 - a saved simulation restores bit-for-bit and continues bit-for-bit.

Three oracles on the same generated states (random integrator x option tuple x modules x save point):
 1. stream idempotence: S1=save(x); y=load(S1); S2=save(y): sabin(S1)==sabin(S2), through memory, file, copy() and pickle;
 2. struct-leaf equality: every scalar leaf of struct reb_simulation (offsets from DWARF) is compared bytewise between
    x and y; leaves are classified explicitly (transient-by-design list with reasons, wall-clock, everything else must match);
 3. lock-step continuation: x and y advance k steps side by side; per-boundary state hashes and the final sabin must be identical.
"""
import json, math, os, sys, random, tempfile
from vf import core, layout, gen, build

PROPERTY = "C05"

# Leaves of struct reb_simulation that are transient by design: value is scratch space re-derived before use,
# an allocation size, a latch for a warning, or wall-clock. Each with a reason. Everything else must be equal.
TRANSIENT = {
    'walltime': 'wall clock', 'walltime_last_step': 'wall clock', 'walltime_last_steps': 'wall clock',
    'walltime_last_steps_sum': 'wall clock', 'walltime_last_steps_N': 'wall clock', 'output_timing_last': 'wall clock of last timing output',
    'N_allocated': 'allocation size', 'N_allocated_lookup': 'allocation size', 'N_lookup': 'lookup table is a cache rebuilt on demand',
    'N_allocated_gravity_cs': 'allocation size', 'N_allocated_collisions': 'allocation size', 'N_allocated_odes': 'allocation size',
    'tree_needs_update': 'tree is rebuilt after load', 'collisions_N': 'scratch count of the collision search of the current step',
    'var_rescale_warning': 'warning latch', 'save_messages': 'set by the front end after load', 'N_messages': 'message queue',
    'ri_whfast.N_allocated': 'allocation size', 'ri_whfast.N_allocated_tmp': 'allocation size', 'ri_whfast.timestep_warning': 'warning latch',
    'ri_whfast.recalculate_coordinates_but_not_synchronized_warning': 'warning latch',
    'ri_ias15.N_allocated': 'allocation size (compacted by save)', 'ri_ias15.N_allocated_map': 'allocation size',
    'ri_mercurius.N_allocated': 'allocation size', 'ri_mercurius.N_allocated_additional_forces': 'allocation size',
    'ri_mercurius.N_allocated_dcrit': 'allocation size', 'ri_mercurius.mode': 'phase flag inside a step; 0 at every step boundary',
    'ri_mercurius.encounter_N': 'scratch of the current step', 'ri_mercurius.encounter_N_active': 'scratch of the current step',
    'ri_mercurius.tponly_encounter': 'scratch of the current step',
    'ri_trace.N_allocated': 'allocation size', 'ri_trace.N_allocated_additional_forces': 'allocation size', 'ri_trace.mode': 'phase flag inside a step',
    'ri_trace.encounter_N': 'scratch of the current step', 'ri_trace.encounter_N_active': 'scratch of the current step',
    'ri_trace.tponly_encounter': 'scratch of the current step', 'ri_trace.current_C': 'scratch of the current step',
    'ri_trace.force_accept': 'scratch of the current step',
    'ri_trace.com_pos.x': 're-derived by inertial_to_dh at the start of every TRACE step (TRACE has no unsynchronised state)',
    'ri_trace.com_pos.y': 're-derived every step', 'ri_trace.com_pos.z': 're-derived every step',
    'ri_trace.com_vel.x': 're-derived every step', 'ri_trace.com_vel.y': 're-derived every step', 'ri_trace.com_vel.z': 're-derived every step',
    'ri_bs.dt_proposed': 'BS copies it into sim.dt (persisted) after every step; otherwise only used for user ODEs, which are not persisted',
    'ri_saba.': None, 'ri_janus.N_allocated': 'allocation size', 'ri_whfast512.N_allocated': 'allocation size',
    'ri_whfast512.recalculate_constants': 'constants are re-derived on first step after load', 'ri_eos.': None,
    'ri_bs.N_allocated': 'allocation size', 'ri_bs.user_ode_needs_nbody': 're-derived', 'ri_bs.nbody_index': 're-derived',
    'ri_sei.lastdt': None,
    'N_odes': 'user ODEs are callbacks+buffers the user re-creates', 'ode_warnings': 'warning latch',
    'simulationarchive_filename': 'pointer', 'simulationarchive_auto_walltime': None,
}
TRANSIENT = dict((k, v) for k, v in TRANSIENT.items() if v is not None)
# leaves under these prefixes belong to dynamically re-created sub-objects (nbody ODE of BS etc.)
TRANSIENT_PREFIX = ('ri_bs.nbody_ode', 'ri_bs.sequence', 'ri_bs.cost_per', 'ri_bs.coeff', 'ri_bs.optimal_step',
                    'ri_whfast512.p_jh0')    # p_jh0 holds reb_particle structs incl. pointers; compared via sabin instead
FUNC_OPTS = ('ri_mercurius.L', 'ri_trace.S', 'ri_trace.S_peri')


def flatten(fields, prefix='', base=0, out=None):
    out = [] if out is None else out
    for f in fields:
        path = prefix + f['fname']
        off = base + f['offset']
        k = f['kind']
        if k in ('int', 'float', 'enum'):
            out.append((path, off, f['size']))
        elif k == 'struct':
            flatten(f['fields'], path + '.', off, out)
        elif k == 'array' and f['elem']['kind'] in ('int', 'float'):
            out.append((path, off, f['size']))
        elif k == 'array' and f['elem']['kind'] == 'struct':
            for i in range(f['count']):
                flatten(f['elem']['fields'], '%s[%d].' % (path, i), off + i * f['elem']['size'], out)
    return out


def reattach(sim, spec):
    for p in FUNC_OPTS:
        if p in spec.get('opts', {}):
            gen.set_path(sim, p, spec['opts'][p])
    if spec.get('collision_resolve'):
        sim.collision_resolve = spec['collision_resolve']


def advance_to_savepoint(sim, spec):
    sp = spec['savepoint']
    if sp['kind'] == 't0':
        return
    if sp['kind'] == 'steps':
        sim.steps(sp['n'])
    elif sp['kind'] == 'integrate':
        sim.integrate(sim.t + sp['T'], exact_finish_time=sp.get('exact', 1))
    elif sp['kind'] == 'steps_sync':
        sim.steps(sp['n'])
        sim.synchronize()


def run_case(case):
    import ctypes, warnings, pickle
    warnings.simplefilter('ignore')
    import rebound
    from vf import rt
    spec = case['spec']
    if case.get('kind') == 'heapfill':
        # one half of a twin run (see main): the same script under two different fill patterns for fresh heap memory
        x = gen.build_sim(spec)
        N0 = x.N
        hops = 0
        try:
            if case.get('hop'):
                # ... and one twin keeps moving house: it continues on a fresh copy of itself every few steps, so that all scratch arrays are
                # newly allocated (and carry the fill pattern wherever the library has not written to them since)
                rh_ = random.Random(case['hop'])
                done = 0
                while done < case['k']:
                    n_ = min(case['k'] - done, rh_.randint(1, case['hop']))
                    x.steps(n_)
                    done += n_
                    x = x.copy()
                    reattach(x, spec)
                    hops += 1
            else:
                x.steps(case['k'])
            x.synchronize()
            dig = rt.digest(rt.sabin_sim(x))
        except Exception as e:
            dig = 'raised:%s' % type(e).__name__
        return dict(violations=[], cell=None, counters=dict(heapfill_runs=1, heapfill_runs_N_changed=int(x.N != N0), heapfill_copies_continued_on=hops), digest=dig, N=(N0, x.N))
    with open(case['leaves']) as f:
        leaves = json.load(f)
    viol = []
    counters = dict(states=0, leaves_compared=0, continuation_boundaries=0, unsynchronized_savepoints=0, paths=0, internal_arrays_nonempty=0)
    x = gen.build_sim(spec)
    advance_to_savepoint(x, spec)
    counters['states'] = 1
    integ = spec['integrator']
    unsync = False
    for fam in ('ri_whfast', 'ri_saba', 'ri_eos', 'ri_mercurius', 'ri_whfast512'):
        try:
            if integ in fam or (integ == 'whfast' and fam == 'ri_whfast'):
                if getattr(getattr(x, fam), 'is_synchronized') == 0:
                    unsync = True
        except AttributeError:
            pass
    counters['unsynchronized_savepoints'] = int(unsync)
    if case.get('presave'):
        # an EARLIER checkpoint of the same object through the same front end, then an edit that advances neither the time nor the step
        # counter nor N (and has no dynamical effect: a name, a radius without a collision module, an exit threshold that steps() never
        # looks at); the checkpoint that is judged is the one taken after the edit, so anything the front end remembers from the first
        # checkpoint (a cached stream, a cached file position, a cached ctypes view) shows as a stale restored state
        try:
            path_ = case['path']
            if path_ == 'pickle':
                pickle.dumps(x)
            elif path_ == 'copy':
                x.copy()
            elif path_ in ('file', 'sa_get'):
                tmp0 = os.path.join(os.getcwd(), 'c05_%d.bin' % os.getpid())
                x.save_to_file(tmp0, delete_file=True)
                os.unlink(tmp0)
            else:
                rt.save_bytes(x)
        except Exception as e:
            return dict(violations=[dict(mech='restore:raises:first-checkpoint:%s' % case['path'], msg='%s: %s' % (type(e).__name__, e))], counters=counters)
        ed = case['presave']
        j_ = ed['j'] % max(1, x.N - x.N_var)
        if ed['what'] == 'hash':
            x.particles[j_].hash = ctypes.c_uint32(ed['v'])
        elif ed['what'] == 'r' and spec.get('collision', 'none') in (None, 'none'):
            x.particles[j_].r = 1e-9 * (1 + ed['v'] % 1000)
        else:
            x.exit_min_distance = 1e-300 * (1 + ed['v'] % 1000)
        counters['second_checkpoint_of_an_object_edited_since_the_first'] = 1
    S1 = rt.save_bytes(x)
    c1 = rt.sabin(S1)
    case['_N0'] = x.N
    arrays = [k for k in c1 if k.startswith('ri_') and len(c1[k]) > 24 and k not in ('ri_whfast512.pjh0',)]
    counters['internal_arrays_nonempty'] = int(bool(arrays))
    path = case['path']
    tmpf = None
    try:
        if path == 'memory':
            y = rebound.Simulation(S1)
        elif path == 'file':
            tmpf = os.path.join(os.getcwd(), 'c05_%d.bin' % os.getpid())
            x.save_to_file(tmpf, delete_file=True)
            y = rebound.Simulation(tmpf)
        elif path == 'copy':
            y = x.copy()
        elif path == 'pickle':
            y = pickle.loads(pickle.dumps(x))
        elif path == 'sa_get' and ((unsync and integ not in ('whfast', 'saba')) or spec.get('gravity') == 'tree' or spec.get('collision') in ('tree', 'linetree')):
            # only WHFast and SABA offer keep_unsynchronized; for the others getSimulation really synchronises (not bit-for-bit by design)
            path = 'memory'
            y = rebound.Simulation(S1)
        elif path == 'sa_get':
            # the documented way to resume from an archive: Simulationarchive.getSimulation(t) with its default keep_unsynchronized=1
            tmpf = os.path.join(os.getcwd(), 'c05_%d.bin' % os.getpid())
            x.save_to_file(tmpf, delete_file=True)
            sa_ = rebound.Simulationarchive(tmpf)
            y = sa_.getSimulation(x.t, mode='snapshot')
            del sa_
    except Exception as e:
        return dict(violations=[dict(mech='restore:raises:%s' % path, msg='%s: %s' % (type(e).__name__, e))], counters=counters)
    finally:
        if tmpf and os.path.exists(tmpf):
            os.unlink(tmpf)
    counters['paths'] = 1
    reattach(y, spec)
    if path == 'sa_get':
        # getSimulation sets keep_unsynchronized and synchronises for output by design, so the stream / struct comparisons do not apply;
        # what is promised is the continuation: the restored run must reach the same physical state as the uninterrupted original
        counters['restored_through_getSimulation'] = 1
        hasvar = bool(spec.get('var') or spec.get('megno'))
        k = case['k']
        try:
            for i in range(k):
                x.steps(1)
                y.steps(1)
                counters['continuation_boundaries'] += 1
            x.synchronize()
            y.synchronize()
            px = [[p.x, p.y, p.z, p.vx, p.vy, p.vz, p.m] for p in x.particles]
            py = [[p.x, p.y, p.z, p.vx, p.vy, p.vz, p.m] for p in y.particles]
            if x.N != y.N or x.t != y.t:
                viol.append(dict(mech='continuation:getSimulation-restart-differs', msg='after %d further steps: N %d vs %d, t %r vs %r' % (k, x.N, y.N, x.t, y.t)))
            elif px != py:
                j = next(i_ for i_ in range(len(px)) if px[i_] != py[i_])
                viol.append(dict(mech='continuation:getSimulation-restart-differs', msg='after %d further steps particle %d differs: %r vs %r' % (k, j, px[j][:3], py[j][:3])))
        except Exception as e:
            viol.append(dict(mech='continuation:raises:getSimulation', msg='%s: %s' % (type(e).__name__, e)))
        for v in viol:
            v['spec'] = spec
        return dict(violations=viol, cell=[integ, sorted(spec.get('opts', {}).keys()), spec['savepoint']['kind'], path, int(unsync)], counters=counters, sample=dict(spec=spec, path=path, k=k))
    # after the file path, x has had save_to_file called (which itself calls save_to_stream): re-save x for comparison
    S1b = rt.save_bytes(x)
    c1b = rt.sabin(S1b)
    if c1b != c1:
        viol.append(dict(mech='save:not-idempotent-on-source:' + ','.join(rt.diff_keys(c1, c1b))[:80], msg='saving the same state twice gives different persisted content: %r' % rt.diff_keys(c1, c1b)))
    S2 = rt.save_bytes(y)
    c2 = rt.sabin(S2)
    dk = rt.diff_keys(c1, c2)
    KU = ('ri_whfast.keep_unsynchronized', 'ri_saba.keep_unsynchronized')
    if path == 'sa_get':
        counters['restored_through_getSimulation'] = 1
        dk = [q for q in dk if q not in KU + ('particles',)] if unsync else [q for q in dk if q not in KU]
    if dk:
        viol.append(dict(mech='stream:resave-differs:' + ','.join(dk)[:100], msg='save(load(save(x))) differs from save(x) in fields %r (path %s)' % (dk, path)))
    # oracle 2: struct leaves
    bx = ctypes.string_at(ctypes.addressof(x), ctypes.sizeof(x))
    by = ctypes.string_at(ctypes.addressof(y), ctypes.sizeof(y))
    bad = []
    for pth, off, size in leaves:
        if pth in TRANSIENT or pth.startswith(TRANSIENT_PREFIX):
            continue
        if path == 'sa_get' and pth.endswith('keep_unsynchronized'):
            continue
        counters['leaves_compared'] += 1
        if bx[off:off + size] != by[off:off + size]:
            bad.append((pth, bx[off:off + size].hex(), by[off:off + size].hex()))
    for pth, a, b in bad[:6]:
        viol.append(dict(mech='leaf:not-restored:' + pth, msg='struct member %s differs after restore via %s: %s vs %s' % (pth, path, a, b)))
    # oracle 3: lock-step continuation
    k = case['k']
    div = None
    # With a tree module the tree (a non-persisted cache) re-orders the particle array whenever a particle leaves its cell;
    # the order after a restore (tree rebuilt from scratch) legitimately differs. Compare as multisets there.
    treemode = spec.get('gravity') == 'tree' or spec.get('collision') in ('tree', 'linetree')
    shash = rt.state_hash_unordered if treemode else rt.state_hash
    counters['tree_mode_states'] = int(treemode)
    # "synchronise for output" after the restore (what Simulationarchive.getSimulation does by default): with keep_unsynchronized=1 the
    # restored run must still continue exactly like the uninterrupted original, which was never synchronised.  The particle array
    # then legitimately differs (it is output, not state), so boundaries are compared on the rest of the persisted content.
    poke = unsync and any(k_.endswith('keep_unsynchronized') and v_ for k_, v_ in spec.get('opts', {}).items()) and (case.get('k', 0) % 2 == 1)
    if path == 'sa_get' and unsync:
        poke = True           # getSimulation has synchronised the restored copy for output already
    if poke:
        if path != 'sa_get':
            y.synchronize()
        counters['restored_then_synchronized_for_output'] = 1

        def shash(s_):
            c_ = rt.sabin_sim(s_)
            c_.pop('particles', None)
            for q_ in KU:
                c_.pop(q_, None)
            return rt.digest(c_)
    if not viol or case.get('continue_anyway'):
        try:
            explained = False
            if treemode and spec.get('collision', 'none') != 'none':
                div, explained = rt.lockstep_tree_collisions(x, y, k, shash)
                counters['continuation_boundaries'] += div or k
            else:
                for i in range(k):
                    x.steps(1)
                    y.steps(1)
                    counters['continuation_boundaries'] += 1
                    if shash(x) != shash(y):
                        div = i + 1
                        break
            if div is None:
                x.synchronize()
                y.synchronize()
                cx, cy = rt.sabin_sim(x), rt.sabin_sim(y)
                dk = rt.diff_keys(cx, cy)
                if treemode:
                    dk = [q for q in dk if q != 'particles']
                if path == 'sa_get':
                    # the restored copy keeps keep_unsynchronized=1 (by design): its internal flags differ from the original's after the final
                    # synchronize; the physical state (synchronised particles, time, counters) must be bitwise the same
                    dk = [q for q in dk if q in ('particles', 't', 'N', 'steps_done', 'dt', 'N_active')] if unsync else [q for q in dk if q not in KU]
                if dk:
                    viol.append(dict(mech='continuation:final-persisted-state-differs:' + ','.join(dk)[:100] + (':tree-mode' if treemode else ''), msg='after %d further steps final persisted states differ in %r' % (k, dk)))
            else:
                viol.append(dict(mech='continuation:diverges' + ((':tree-mode-with-collisions' if explained else ':tree-mode:collisions-detected-in-different-steps') if treemode and spec.get('collision', 'none') != 'none' else ''), msg='trajectories of original and restored (%s) differ at step %d of %d' % (path, div, k)))
        except Exception as e:
            viol.append(dict(mech='continuation:raises', msg='%s: %s' % (type(e).__name__, e)))
    nondefault = len(spec.get('opts', {})) > 0
    optclass = sorted(spec.get('opts', {}).keys())
    if spec.get('collision'):
        optclass = [spec.get('gravity'), spec.get('collision'), spec.get('boundary'), spec.get('collision_resolve')]
        counters['module_states'] = 1
        counters['N_changed_during_continuation'] = int(x.N != case.get('_N0', x.N))
    cell = [integ, optclass, spec['savepoint']['kind'], path, int(unsync)] if (nondefault and arrays) or spec['savepoint']['kind'] != 't0' else None
    for v in viol:
        v['spec'] = spec
    return dict(violations=viol, cell=cell, counters=counters, sample=dict(spec=spec, path=path, k=k))


def plan(tier, seed):
    r = core.rng(PROPERTY, seed)
    n = 4000 if tier == "quick" else 30000
    cases = {'rel': [], 'avx512': [], 'asan': []}
    for i in range(n):
        variant = 'rel'
        if i % 9 == 8:
            variant = 'avx512'
        elif tier == 'thorough' and i % 9 == 7:
            variant = 'asan'
        integ = 'whfast512' if (variant == 'avx512' and r.random() < 0.7) else None
        modules = variant != 'avx512' and r.random() < 0.3
        spec = gen.random_module_spec(r) if modules else gen.random_spec(r, integ=integ, avx512=(variant == 'avx512'))
        kind = r.choice(['t0', 'steps', 'steps', 'steps', 'integrate', 'steps_sync'])
        sp = dict(kind=kind)
        if kind in ('steps', 'steps_sync'):
            sp['n'] = r.choice([1, 2, 3, 7, 20, 50])
        if kind == 'integrate':
            sp['T'] = spec['dt'] * r.uniform(1.2, 30.7)
            if modules:
                kind = sp['kind'] = 'steps'
                sp['n'] = r.choice([1, 5, 20])
            sp['exact'] = 0 if spec['integrator'] == 'whfast512' else r.choice([0, 1])
        spec['savepoint'] = sp
        cases[variant].append(dict(spec=spec, path=r.choice(['memory', 'file', 'copy', 'pickle', 'sa_get']), k=r.choice([1, 3, 10, 40, 120 if tier == 'quick' else 300])))
        if r.random() < 0.3:
            cases[variant][-1]['presave'] = dict(what=r.choice(['hash', 'r', 'exit']), j=r.randrange(64), v=r.randrange(1, 1 << 31))
    return cases


def main(tier, seed):
    V = core.Verdict(PROPERTY, tier, seed)
    td = tempfile.mkdtemp(prefix='c05-')
    have512 = 'avx512f' in open('/proc/cpuinfo').read()
    for variant, cases in plan(tier, seed).items():
        if not cases:
            continue
        if variant == 'avx512' and not have512:
            V.inconclusive.append('CPU lacks avx512f: WHFast512 states skipped')
            continue
        D = layout.dwarf_layout('dbg512' if variant == 'avx512' else 'dbg', ['reb_simulation'])
        leaves = flatten(D['structs']['reb_simulation']['fields'])
        lp = os.path.join(td, variant + '-leaves.json')
        with open(lp, 'w') as f:
            json.dump(leaves, f)
        for c in cases:
            c['leaves'] = lp
        res = core.run_cases('checks.c05_roundtrip', variant, cases, timeout_case=300)
        for c, r in zip(cases, res):
            c = dict(c)
            c.pop('leaves', None)
            V.absorb(c, r)
    # ---- heap-fill twin runs: a continuation can only be bit-for-bit if the trajectory does not depend on what fresh heap memory
    # happens to contain (a restored simulation lives in different allocations).  glibc's MALLOC_PERTURB_ fills every malloc'ed /
    # realloc'ed-grown / freed block with a byte pattern: the same script under two patterns must give the same bits.
    rh = core.rng(PROPERTY, seed, 'heapfill')
    hcases = []
    for i in range(320 if tier == 'quick' else 2400):
        modules = rh.random() < 0.8
        spec = gen.random_module_spec(rh) if modules else gen.random_spec(rh)
        if modules and i % 4:
            # the hybrid integrators keep per-pair / per-particle scratch arrays that are re-laid out when a merger removes a particle mid-step
            want_ = 'trace' if i % 4 != 3 else 'mercurius'
            for _ in range(200):
                if spec['integrator'] == want_ and spec['collision_resolve'] == 'merge':
                    break
                spec = gen.random_module_spec(rh)
            for p_ in spec['system']['particles'][1:]:
                p_[7] *= 1.5          # larger bodies: more mergers per run
            if rh.random() < 0.5:
                # two small bodies at the END of the array that meet within the first hundred steps (the merger then removes the last particle)
                ang_ = rh.uniform(0, 6.28)
                d_ = rh.uniform(6.0, 9.0)
                vc_ = math.sqrt(1.0 / d_)
                ex_, ey_ = math.cos(ang_), math.sin(ang_)
                sep_, vr_ = rh.uniform(0.6, 1.5), rh.uniform(0.2, 0.6)
                for sg_ in (-1, 1):
                    spec['system']['particles'].append([1e-5, (d_ + sg_ * sep_ / 2) * ex_, (d_ + sg_ * sep_ / 2) * ey_, 0.01 * sg_,
                                                        -ey_ * vc_ - sg_ * vr_ / 2 * ex_, ex_ * vc_ - sg_ * vr_ / 2 * ey_, 0.0, 0.15])
        spec['savepoint'] = dict(kind='t0')
        # (with a tree module a copy rebuilds the tree and legitimately reorders the particle array - see the known findings on tree mode -
        #  so those twins differ in the fill pattern only)
        has_tree_ = spec.get('gravity') == 'tree' or 'tree' in str(spec.get('collision'))
        hcases.append(dict(kind='heapfill', spec=spec, hopmax=rh.choice([0, 1, 3, 20]) if not has_tree_ else 0, k=rh.choice([40, 120, 300]) if not (modules and i % 4) else 400))
    twin = [core.run_cases('checks.c05_roundtrip', 'rel', [dict(c, hop=hop_ and c['hopmax']) for c in hcases], timeout_case=300, extra_env={'MALLOC_PERTURB_': pat}) for pat, hop_ in (('255', 0), ('85', 1))]
    for c, a, b in zip(hcases, twin[0], twin[1]):
        V.absorb(c, a)
        V.evaluations -= 1
        V.absorb(c, b)
        if a and b and 'digest' in a and 'digest' in b:
            V.count('heapfill_twin_runs_compared')
            V.cells.add(json.dumps(['heapfill', c['spec']['integrator'], c['spec'].get('collision'), c['spec'].get('gravity'), a['N'][0] != a['N'][1]]))
            if a['digest'] != b['digest']:
                V.violation(('twin:run-continued-on-fresh-copies-differs-from-straight-run:%s' if c['hopmax'] else 'twin:trajectory-depends-on-fresh-heap-contents:%s') % c['spec']['integrator'],
                            dict(case=c, detail=dict(msg='the same script gives different final bits under MALLOC_PERTURB_=255 (fresh memory zeroed) and =85 (fresh memory 0xAA) (N %r -> %r / %r)' % (a['N'][0], a['N'][1], b['N'][1]))))
    # ---- valgrind memcheck on a C driver (cdrv/memchk.c): clusters with mergers / bounces mid-step under TRACE, MERCURIUS, IAS15(+MEGNO),
    # WHFast, BS and LEAPFROG+tree, the run moving onto a fresh copy of itself every few dozen steps.  Memcheck tracks definedness bit by bit:
    # every use of a never-written value inside the library is reported with both stacks (the twin runs above only see such a read when it
    # changes the result).  -O0 build; reports are keyed by the innermost library function.
    import subprocess, re
    from concurrent.futures import ThreadPoolExecutor
    binm = build.cdriver('memchk', 'dbg', ['memchk.c'])
    nchunks, per, nst = (4, 7, 150) if tier == 'quick' else (32, 14, 400)

    def memchk(ci):
        cmd = ['valgrind', '-q', '--error-exitcode=9', '--track-origins=yes', '--error-limit=no', binm, str(seed * 1000 + 7), str(ci * per), str(per), str(nst)]
        try:
            p = subprocess.run(cmd, capture_output=True, text=True, timeout=1500)
        except subprocess.TimeoutExpired:
            return ci, None, '', ''
        return ci, p.returncode, p.stdout, p.stderr
    with ThreadPoolExecutor(16) as ex:
        mres = list(ex.map(memchk, range(nchunks)))
    for ci, rc, out, err in mres:
        V.evaluations += 1
        if rc is None:
            V.inconclusive.append('watchdog fired (1500s) on memcheck chunk %d' % ci)
            continue
        jobs = re.findall(r'^JOB (\d+) kind (\d+) N (\d+) -> (\d+) steps (\d+) hops (\d+)', out, re.M)
        V.count('memcheck_jobs', len(jobs))
        V.count('memcheck_jobs_with_removals', sum(1 for j in jobs if j[2] != j[3]))
        V.count('memcheck_steps', sum(int(j[4]) for j in jobs))
        V.count('memcheck_copies_continued_on', sum(int(j[5]) for j in jobs))
        for j in jobs:
            V.cells.add(json.dumps(['memcheck', int(j[1]), j[2] != j[3]]))
        blocks = re.split(r'\n==\d+== \n', err)
        nrep = 0
        for b in blocks:
            m = re.search(r'==\d+== (Conditional jump or move depends on uninitialised value|Use of uninitialised value|Invalid read|Invalid write|Syscall param .* uninitialised|Invalid free|Mismatched free)', b)
            if not m:
                continue
            frames = re.findall(r'(?:at|by) 0x[0-9A-F]+: (\w+) \((\w+\.c):(\d+)\)', b)
            lib = [f for f in frames if f[1] != 'memchk.c']
            if not lib:
                continue
            nrep += 1
            V.violation('memcheck:%s:%s' % (m.group(1).split(' depends')[0].replace(' ', '-').lower()[:40], lib[0][0]),
                        dict(case=dict(chunk=ci, cmd=' '.join(cmd_ for cmd_ in ['valgrind', binm, str(seed * 1000 + 7), str(ci * per), str(per), str(nst)])), detail=dict(msg=b[:1800])))
        if 'DONE' not in out and nrep == 0:
            V.harness_errors.append('memcheck chunk %d ended rc=%r without DONE: %s' % (ci, rc, err[-800:]))
    import shutil
    shutil.rmtree(td, ignore_errors=True)
    inc = []
    for k in ('leaves_compared', 'continuation_boundaries', 'unsynchronized_savepoints', 'internal_arrays_nonempty', 'heapfill_twin_runs_compared', 'memcheck_jobs_with_removals'):
        if V.counters.get(k, 0) == 0:
            inc.append('monitor counter %s is zero' % k)
    return V.finish(
        rule="random (integrator, documented option tuple, system, N_active/testparticle_type, variational/MEGNO, G) x save point "
             "(t0 / after n steps incl. unsynchronised / after integrate with shrunken last step / after sync) x restore path (memory, file, copy, pickle); "
             "non-trivial = >=1 non-default option and >=1 non-empty integrator-internal array at the save point, or a mid-run save point; "
             "distinct = (integrator, option-name set, save-point kind, path, unsynchronised?)",
        assumptions=["the list of transient-by-design struct members in this file (each with a reason)", "DWARF offsets from the -g build equal those of the -O3 build"],
        floor=20, inconclusive_if=inc)


def replay(path):
    d = json.load(open(path))
    return 1
