"""C16 - variational particles are the derivatives of the trajectory.

 constructors  every first-order derivative constructor (m, a, e, inc, omega, Omega, f, lambda, h, k, ix, iy) and every second-order
               pair is compared with 4th-order central finite differences of the real element-to-Cartesian constructor
               (decided by C11), at random orbits, primaries, masses and G.
 evolution     first-order (IAS15, BS, WHFast, LEAPFROG) and second-order (IAS15, BS) variational particles, initialised from a
               Cartesian coordinate, a mass or an orbital element of a random particle (also test-particle variations), are
               integrated for a few to tens of orbits and compared with central finite differences of shadow simulations
               run with the same integrator and settings (for the fixed-step maps the variational equations are the tangent
               map of the discrete scheme, so the agreement is to finite-difference accuracy, not to truncation error).
 rescaling     a variational vector started at 1e99 x v crosses 1e100 and is rescaled: exp(lrescale) x particles must equal
               1e99 x the run started at v, for IAS15 and WHFast in safe and unsafe mode.
 megno         on well separated two/three planet systems MEGNO tends to 2 and the Lyapunov estimate to 0 (WHFast, IAS15, LEAPFROG).
"""
import json, math, random
from vf import core, gen
from vf.num import gt, nmax as max, nmin as min

PROPERTY = "C16"
EPS = 2.0 ** -52
CLASSIC = ["a", "e", "inc", "omega", "Omega", "f"]
PAL = ["a", "lambda", "h", "k", "ix", "iy"]
VT = ["m", "a", "e", "inc", "omega", "Omega", "f", "k", "h", "lambda", "ix", "iy"]


def run_case(case):
    import ctypes, warnings
    warnings.simplefilter('ignore')
    import rebound
    from rebound import clibrebound as clib
    from rebound import Particle
    r = random.Random(case['seed'])
    viol = []
    counters = dict(constructors_first=0, constructors_second=0, evolution_first=0, evolution_second=0, testparticle_variations=0, rescale_runs=0, rescales_triggered=0, megno_runs=0, constructor_pairs_unsupported=0)
    cells = set()

    def add(mech, msg):
        if len(viol) < 40:
            viol.append(dict(mech=mech, msg=msg))

    def vec(p):
        return [p.x, p.y, p.z, p.vx, p.vy, p.vz]

    # ---------------------------------------------------------------- element sets <-> particle
    def make_particle(sim, primary, el):
        if 'h' in el:
            return Particle(simulation=sim, primary=primary, m=el['m'], a=el['a'], l=el['lambda'], h=el['h'], k=el['k'], ix=el['ix'], iy=el['iy'])
        return Particle(simulation=sim, primary=primary, m=el['m'], a=el['a'], e=el['e'], inc=el['inc'], omega=el['omega'], Omega=el['Omega'], f=el['f'])

    def fd1(fun, el, key, h):
        def at(s):
            e2 = dict(el)
            e2[key] = el[key] + s * h
            return fun(e2)
        a2, a1, b1, b2 = at(2), at(1), at(-1), at(-2)
        return [(-a2[i] + 8 * a1[i] - 8 * b1[i] + b2[i]) / (12 * h) for i in range(len(a1))]

    def fd2(fun, el, k1, h1, k2, h2):
        if k1 == k2:
            def at(s):
                e2 = dict(el)
                e2[k1] = el[k1] + s * h1
                return fun(e2)
            a2, a1, c, b1, b2 = at(2), at(1), at(0), at(-1), at(-2)
            return [(-a2[i] + 16 * a1[i] - 30 * c[i] + 16 * b1[i] - b2[i]) / (12 * h1 * h1) for i in range(len(c))]
        w = {2: -1.0, 1: 8.0, -1: -8.0, -2: 1.0}
        out = None
        for s1, w1 in w.items():
            for s2, w2 in w.items():
                e2 = dict(el)
                e2[k1] = el[k1] + s1 * h1
                e2[k2] = el[k2] + s2 * h2
                v = fun(e2)
                if out is None:
                    out = [0.0] * len(v)
                for i in range(len(v)):
                    out[i] += w1 * w2 * v[i]
        return [x / (144 * h1 * h2) for x in out]

    def random_elements(rr, pal):
        a = 10 ** rr.uniform(-0.5, 0.7)
        e = rr.uniform(0.02, 0.6)
        # prograde and retrograde; the Pal map is singular at inc = pi (ix^2 + iy^2 = 4): finite differences need some distance from it
        inc = rr.uniform(0.05, 1.2) if rr.random() < 0.6 else rr.uniform(1.6, 2.3 if pal else math.pi - 0.05)
        Om, om, f = rr.uniform(0.1, 6.1), rr.uniform(0.1, 6.1), rr.uniform(0.2, 6.0)
        m = 10 ** rr.uniform(-6, -2)
        if not pal:
            return dict(m=m, a=a, e=e, inc=inc, omega=om, Omega=Om, f=f)
        pom = Om + om
        E = 2 * math.atan2(math.sqrt(1 - e) * math.sin(f / 2), math.sqrt(1 + e) * math.cos(f / 2))
        M = E - e * math.sin(E)
        return dict(m=m, a=a, **{'lambda': pom + M}, h=e * math.sin(pom), k=e * math.cos(pom), ix=2 * math.sin(inc / 2) * math.cos(Om), iy=2 * math.sin(inc / 2) * math.sin(Om))

    for _ in range(case['n']):
        kind = r.choice(case['kinds'])
        rr = random.Random(r.getrandbits(40))
        if kind == 'constructors':
            G = rr.choice([1.0, 39.476926421373, 6.674e-11, 0.3])
            sim = rebound.Simulation()
            sim.G = G
            scale_m = 1.0 if G != 6.674e-11 else 2e30
            prim = Particle(m=scale_m * rr.choice([1.0, 0.3, 2.0]), x=rr.uniform(-1, 1), y=rr.uniform(-1, 1), z=rr.uniform(-1, 1), vx=rr.uniform(-1, 1) * 0.1, vy=rr.uniform(-1, 1) * 0.1, vz=0.05)
            pal = rr.random() < 0.5
            el = random_elements(rr, pal)
            el['m'] *= scale_m
            if G == 6.674e-11:
                el['a'] *= 1.5e11
            names = (PAL if pal else CLASSIC) + ['m']
            p0 = make_particle(sim, prim, el)
            fun = lambda e_: vec(make_particle(sim, prim, e_)) + [e_['m']]
            steps = dict((k_, 1e-4 * (abs(el[k_]) if k_ in ('a', 'm') else 1.0)) for k_ in names)
            mag = [abs(x) + 1e-300 for x in vec(p0)]
            pscale = math.sqrt(sum(x * x for x in vec(p0)[:3]))
            vscale = math.sqrt(sum(x * x for x in vec(p0)[3:]))
            for k1 in names:
                fn = getattr(clib, 'reb_particle_derivative_' + k1)
                fn.restype = Particle
                d = fn(ctypes.c_double(G), prim, p0)
                got = vec(d) + [d.m]
                want = fd1(fun, el, k1, steps[k1])
                counters['constructors_first'] += 1
                unit = abs(el[k1]) if k1 in ('a', 'm') else 1.0
                for i in range(7):
                    sc = (pscale if i < 3 else vscale if i < 6 else abs(el['m'])) / unit
                    if gt(abs(got[i] - want[i]), 1e-7 * sc + 1e-9 * abs(want[i])):
                        add('constructor:first-order:%s' % k1, 'G=%g %s elements %r: component %d constructor %r, finite difference %r' % (G, 'pal' if pal else 'classical', el, i, got[i], want[i]))
                        break
                cells.add(json.dumps(['constructor1', k1, pal]))
            for k1 in names:
                for k2 in names:
                    i1, i2 = VT.index(k1), VT.index(k2)
                    if i2 < i1:
                        continue
                    name = 'reb_particle_derivative_%s_%s' % (k1, k2)
                    if not hasattr(clib, name):
                        counters['constructor_pairs_unsupported'] += 1
                        continue
                    fn = getattr(clib, name)
                    fn.restype = Particle
                    d = fn(ctypes.c_double(G), prim, p0)
                    got = vec(d) + [d.m]
                    h1 = 1e-3 * (abs(el[k1]) if k1 in ('a', 'm') else 1.0)
                    h2 = 1e-3 * (abs(el[k2]) if k2 in ('a', 'm') else 1.0)
                    want = fd2(fun, el, k1, h1, k2, h2)
                    counters['constructors_second'] += 1
                    u1 = abs(el[k1]) if k1 in ('a', 'm') else 1.0
                    u2 = abs(el[k2]) if k2 in ('a', 'm') else 1.0
                    for i in range(7):
                        sc = (pscale if i < 3 else vscale if i < 6 else abs(el['m'])) / (u1 * u2)
                        if gt(abs(got[i] - want[i]), 1e-5 * sc + 1e-6 * abs(want[i])):
                            add('constructor:second-order:%s_%s' % (k1, k2), 'G=%g %s elements %r: component %d constructor %r, finite difference %r' % (G, 'pal' if pal else 'classical', el, i, got[i], want[i]))
                            break
                    cells.add(json.dumps(['constructor2', k1, k2, pal]))
        elif kind == 'evolution':
            integ = rr.choice(['ias15', 'ias15', 'bs', 'whfast', 'leapfrog'])
            order = rr.choice([1, 1, 2]) if integ in ('ias15', 'bs') else 1
            G = rr.choice([1.0, 1.0, 39.476926421373])
            npl = rr.randint(1, 3)
            sysd = gen.planetary_system(rr, npl, mass_lo=1e-5, mass_hi=1e-3, emax=0.2, incmax=0.3)
            P = 2 * math.pi * math.sqrt(min(p['a'] for p in sysd['planets']) ** 3 / G)
            testp = rr.random() < 0.25 and order == 1
            if testp:
                aout = max(p['a'] for p in sysd['planets'])
                sysd['testparticles'] = [dict(a=aout * 1.8, e=0.05, inc=0.1, Omega=1.0, omega=2.0, f=3.0, m=0.0)]
            # tracers: real test particles (N_active < N) next to a FULL variation of one of the planets: the tracers' variational
            # particles are the derivatives of the tracer trajectories with respect to the planet's coordinate / element / mass
            tracers = (not testp) and rr.random() < 0.3
            if tracers:
                aout = max(p['a'] for p in sysd['planets'])
                ain = min(p['a'] for p in sysd['planets'])
                sysd['testparticles'] = [dict(a=(aout * 1.8 if rr.random() < 0.5 else ain / 1.8), e=0.05, inc=0.1, Omega=1.0, omega=2.0, f=rr.uniform(0, 6), m=0.0)]
                if rr.random() < 0.5:
                    sysd['testparticles'].append(dict(a=aout * 2.6, e=0.1, inc=0.2, Omega=2.0, omega=1.0, f=rr.uniform(0, 6), m=0.0))
                P = min(P, 2 * math.pi * math.sqrt(min(q_['a'] for q_ in sysd['testparticles']) ** 3 / G))
                counters['evolution_with_tracers'] = counters.get('evolution_with_tracers', 0) + 1
            nreal = 1 + npl + (1 if testp else 0) + (len(sysd['testparticles']) if tracers else 0)
            vi = nreal - 1 if testp else rr.randint(1, npl)
            pal = rr.random() < 0.4
            cart = rr.random() < 0.3
            if cart:
                k1 = rr.choice(['x', 'y', 'z', 'vx', 'vy', 'vz', 'm'])
                k2 = rr.choice(['x', 'y', 'vx', 'vy', 'm']) if order == 2 else None
            else:
                pool = (PAL if pal else CLASSIC) + ['m']
                if testp:
                    pool = [q for q in pool if q != 'm']
                k1 = rr.choice(pool)
                k2 = rr.choice(pool) if order == 2 else None
            if testp and k1 == 'm':
                k1 = 'x'
            if order == 2 and rr.random() < 0.35:
                k2 = k1            # diagonal second derivatives (half of them through the add_variation shortcut without first_order_2)
            # elements (and their variations) may refer to another primary than particle 0: the Jacobi centre of mass of the inner bodies, which
            # is what sim.add() uses by default.  vary() has to hand that primary to the derivative constructor, for full and test-particle variations.
            primkind = 'jacobi' if (not cart and vi >= 2 and rr.random() < 0.5) else 'star'
            if primkind == 'jacobi':
                counters['evolution_elements_relative_to_jacobi_com'] = counters.get('evolution_elements_relative_to_jacobi_com', 0) + 1
                if testp:
                    counters['evolution_testparticle_variation_relative_to_jacobi_com'] = counters.get('evolution_testparticle_variation_relative_to_jacobi_com', 0) + 1
            T = P * rr.choice([3.0, 7.5, 20.0]) * rr.choice([1, 1, -1])
            dt = P / rr.choice([20.1, 41.3])
            # WHFast's deferred synchronisation must not change the variational particles either (to rounding): a third of the WHFast
            # cases run with safe_mode=0, half of those with keep_unsynchronized=1 (every output is then a synchronise-and-restore)
            wh_mode = rr.choice(['safe', 'safe', 'unsafe', 'unsafe-keep']) if integ == 'whfast' else 'safe'
            if wh_mode != 'safe':
                counters['evolution_whfast_' + wh_mode] = counters.get('evolution_whfast_' + wh_mode, 0) + 1

            def build(delta1=0.0, delta2=0.0, with_var=False):
                sim = rebound.Simulation()
                sim.G = G
                gen.add_system(sim, sysd)
                if testp:
                    sim.N_active = nreal - 1
                if tracers:
                    sim.N_active = 1 + npl
                prim = sim.particles[0] if primkind == 'star' else sim.com(first=0, last=vi)
                p = sim.particles[vi]
                if not cart:
                    o = p.orbit(primary=prim, G=G)
                    if pal:
                        el = dict(m=p.m, a=o.a, **{'lambda': o.l}, h=o.e * math.sin(o.pomega), k=o.e * math.cos(o.pomega), ix=2 * math.sin(o.inc / 2) * math.cos(o.Omega), iy=2 * math.sin(o.inc / 2) * math.sin(o.Omega))
                    else:
                        el = dict(m=p.m, a=o.a, e=o.e, inc=o.inc, omega=o.omega, Omega=o.Omega, f=o.f)
                    base_el = dict(el)
                    el[k1] += delta1
                    if k2:
                        el[k2] += delta2
                    q = make_particle(sim, prim, el)
                    for nm in ('x', 'y', 'z', 'vx', 'vy', 'vz', 'm'):
                        setattr(p, nm, getattr(q, nm))
                else:
                    base_el = None
                    setattr(p, k1, getattr(p, k1) + delta1)
                    if k2:
                        setattr(p, k2, getattr(p, k2) + delta2)
                sim.integrator = integ
                if wh_mode != 'safe':
                    sim.ri_whfast.safe_mode = 0
                    sim.ri_whfast.keep_unsynchronized = int(wh_mode == 'unsafe-keep')
                if integ == 'ias15':
                    sim.ri_ias15.epsilon = 1e-9
                elif integ == 'bs':
                    sim.ri_bs.eps_rel = 1e-13
                    sim.ri_bs.eps_abs = 1e-13
                sim.dt = math.copysign(dt, T)
                var = None
                if with_var:
                    tpidx = vi if testp else -1
                    if tpidx >= 0:
                        counters['testparticle_variations'] += 1
                    v1 = sim.add_variation(order=1, testparticle=tpidx)
                    if cart:
                        setattr(v1.particles[0] if tpidx >= 0 else v1.particles[vi], k1, 1.0)
                    else:
                        v1.vary(vi, k1, primary=prim)
                    var = v1
                    if order == 2:
                        if k2 == k1:
                            v1b = v1
                        else:
                            v1b = sim.add_variation(order=1)
                            if cart:
                                setattr(v1b.particles[vi], k2, 1.0)
                            else:
                                v1b.vary(vi, k2, primary=prim)
                        if v1b is v1 and vi % 2 == 0:
                            # the documented shortcut for a diagonal second derivative: first_order_2 omitted
                            v2 = sim.add_variation(order=2, first_order=v1)
                            counters['second_order_with_first_order_2_omitted'] = counters.get('second_order_with_first_order_2_omitted', 0) + 1
                        else:
                            v2 = sim.add_variation(order=2, first_order=v1, first_order_2=v1b)
                        if not cart:
                            v2.vary(vi, k1, k2, primary=prim)
                        var = v2
                return sim, var

            def run(sim):
                if integ in ('whfast', 'leapfrog'):
                    sim.steps(int(round(abs(T) / dt)))
                    sim.synchronize()
                else:
                    sim.integrate(T, exact_finish_time=1)
                return [vec(p) for p in sim.particles[:nreal]]

            try:
                simv, var = build(with_var=True)
                run(simv)
            except Exception as e_:
                counters['evolution_errors'] = counters.get('evolution_errors', 0) + 1
                continue
            if testp:
                got = [None] * (nreal - 1) + [vec(var.particles[0])]
            else:
                got = [vec(var.particles[i]) for i in range(nreal)]
            p0 = simv.particles[vi]
            u1 = 1.0
            sim0, _v = build()
            if cart:
                u1 = {'x': 1, 'y': 1, 'z': 1, 'vx': 1, 'vy': 1, 'vz': 1}.get(k1)
                if u1 is None:
                    u1 = abs(sim0.particles[vi].m)
                else:
                    a_ = sysd['planets'][min(vi, npl) - 1]['a'] if vi <= npl else 1.0
                    u1 = a_ if k1 in ('x', 'y', 'z') else math.sqrt(G / a_)
            else:
                u1 = abs(getattr(sim0.particles[vi], 'm')) if k1 == 'm' else (sysd['planets'][vi - 1]['a'] if (k1 == 'a' and vi <= npl) else (sysd['testparticles'][0]['a'] if k1 == 'a' else 1.0))
            pf = max(1.0, 1.5 * 2 * math.pi * abs(T) / P / 10.0)     # a relative step h shifts the orbital phase by ~1.5 n T h: keep that small
            try:
                if order == 1:
                    h = 1e-4 * u1 / math.sqrt(pf)
                    if k1 == 'm':
                        h = min(1e-6, abs(sim0.particles[vi].m) / 4)      # mass enters through G (M + m): step on the scale of the star, not of the planet
                    res = {}
                    for s in (2, 1, -1, -2):
                        sm, _v = build(delta1=s * h)
                        res[s] = run(sm)
                    want = [[(-res[2][i][c] + 8 * res[1][i][c] - 8 * res[-1][i][c] + res[-2][i][c]) / (12 * h) for c in range(6)] for i in range(nreal)]
                    counters['evolution_first'] += 1
                    tol = 3e-6
                else:
                    u2 = u1
                    if k2 != k1:
                        if cart:
                            a_ = sysd['planets'][vi - 1]['a']
                            u2 = abs(sim0.particles[vi].m) if k2 == 'm' else (a_ if k2 in ('x', 'y', 'z') else math.sqrt(G / a_))
                        else:
                            u2 = abs(sim0.particles[vi].m) if k2 == 'm' else (sysd['planets'][vi - 1]['a'] if k2 == 'a' else 1.0)
                    h1, h2 = 2e-3 * u1 / pf, 2e-3 * u2 / pf
                    # the trajectory depends on a mass through G (M + m): the natural scale of a mass step is the stellar mass, not the (tiny) planet mass
                    mnow = abs(sim0.particles[vi].m)
                    if k1 == 'm':
                        h1 = min(2e-6 / pf * 10, mnow / 4)
                    if k2 == 'm':
                        h2 = min(2e-6 / pf * 10, mnow / 4)
                    if k1 == k2:
                        res = {}
                        for s in (2, 1, 0, -1, -2):
                            sm, _v = build(delta1=s * h1)
                            res[s] = run(sm)
                        want = [[(-res[2][i][c] + 16 * res[1][i][c] - 30 * res[0][i][c] + 16 * res[-1][i][c] - res[-2][i][c]) / (12 * h1 * h1) for c in range(6)] for i in range(nreal)]
                    else:
                        w = {2: -1.0, 1: 8.0, -1: -8.0, -2: 1.0}
                        acc = [[0.0] * 6 for _i in range(nreal)]
                        for s1, w1 in w.items():
                            for s2, w2 in w.items():
                                sm, _v = build(delta1=s1 * h1, delta2=s2 * h2)
                                rs = run(sm)
                                for i in range(nreal):
                                    for c in range(6):
                                        acc[i][c] += w1 * w2 * rs[i][c]
                        want = [[acc[i][c] / (144 * h1 * h2) for c in range(6)] for i in range(nreal)]
                    counters['evolution_second'] += 1
                    tol = 2e-3 if 'm' not in (k1, k2) else 2e-2
            except ValueError as e_:
                # a shadow element set left the domain (e - 2h < 0 for a nearly circular orbit): no finite difference to compare with
                counters['evolution_fd_outside_domain'] = counters.get('evolution_fd_outside_domain', 0) + 1
                continue
            # compare: relative to the size of the derivative field (positions and velocities separately)
            idxs = [i for i in range(nreal) if got[i] is not None]
            for lo, hi, nm in ((0, 3, 'position'), (3, 6, 'velocity')):
                sc = max(max(abs(want[i][c]) for c in range(lo, hi)) for i in idxs) + 1e-300
                dd = max(max(abs(got[i][c] - want[i][c]) for c in range(lo, hi)) for i in idxs)
                # finite-difference noise: trajectory error of the shadow runs divided by the step(s)
                etraj = {'ias15': 1e-12, 'bs': 1e-11, 'whfast': 1e-13, 'leapfrog': 1e-13}[integ] * max(1.0, abs(T) / P / 3)
                noise = etraj / h if order == 1 else etraj / (h1 * h2)
                if nm == 'velocity':
                    noise *= 2 * math.pi / P * 3
                if dd > tol * sc + 1e-9 * sc + 30 * noise:
                    massvar = integ == 'whfast' and 'm' in (k1, k2)
                    add('evolution:order%d:%s%s%s' % (order, integ, ':testparticle' if testp else '', ':mass-variation' if massvar else ''), '%s order %d vary %s%s of particle %d (%s) G=%g T=%.1f P: %s derivative off by %.3e of its size %.3e' % (
                        integ, order, k1, ('/' + k2) if k2 else '', vi, 'cartesian' if cart else ('pal' if pal else 'classical'), G, T / P, nm, dd / sc, sc))
                    break
            cells.add(json.dumps(['evolution', integ, order, k1, k2, testp]))
        elif kind == 'rescale':
            integ, safe = rr.choice([('ias15', 1), ('whfast', 1), ('whfast', 0), ('leapfrog', 1), ('bs', 1)])
            sysd = gen.planetary_system(rr, rr.randint(1, 2), mass_lo=1e-5, mass_hi=1e-3)
            P = gen.inner_period(sysd)

            def mk(scale):
                sim = rebound.Simulation()
                gen.add_system(sim, sysd)
                sim.integrator = integ
                if integ == 'bs':
                    sim.ri_bs.eps_rel = 1e-12       # the step-size control looks at the variational vector as well: keep its tolerance-level
                    sim.ri_bs.eps_abs = 1e-12       # influence far below the comparison threshold
                if integ == 'whfast':
                    sim.ri_whfast.safe_mode = safe
                sim.dt = P / 25.3
                v = sim.add_variation()
                v.particles[1].x = 1.0 * scale
                v.particles[1].vy = 0.5 * scale
                return sim, v
            nsteps = rr.choice([200, 800])
            out = []
            for sc_ in (1.0, 9e99):
                sim, v = mk(sc_)
                if integ in ('ias15', 'bs'):
                    sim.integrate(nsteps * sim.dt)
                else:
                    sim.steps(nsteps)
                    sim.synchronize()
                vv = sim.var_config[0] if hasattr(sim, 'var_config') else v
                lres = vv._lrescale if hasattr(vv, '_lrescale') else 0.0
                out.append(([vec(p) for p in v.particles], lres, sc_))
            counters['rescale_runs'] += 1
            (a_, l_a, _s), (b_, l_b, sB) = out
            if l_b != 0.0:
                counters['rescales_triggered'] += 1
            if not (l_b < 600):
                add('rescale:runaway-lrescale:%s%s' % (integ, ':unsafe' if (integ == 'whfast' and not safe) else ''), '%s safe=%d nsteps=%d: lrescale=%r after a run whose variational vector grows by a few orders of magnitude at most' % (integ, safe, nsteps, l_b))
                continue
            fac = math.exp(l_b)
            mx = max(abs(x) for p in a_ for x in p) + 1e-300
            dd = max(abs(x * fac / sB - y) for p, q in zip(b_, a_) for x, y in zip(p, q))
            if gt(dd, (1e-9 if integ != 'bs' else 1e-6) * mx):
                add('rescale:changes-more-than-magnitude:%s%s' % (integ, ':unsafe' if (integ == 'whfast' and not safe) else ''), '%s safe=%d nsteps=%d: exp(lrescale)=%.3e: rescaled run differs from the unit run by %.3e of its size' % (integ, safe, nsteps, fac, dd / mx))
            if l_a != 0.0:
                add('rescale:triggered-without-need:%s' % integ, 'lrescale=%r on a run whose variational vector stays of order 1' % l_a)
            cells.add(json.dumps(['rescale', integ, safe, l_b != 0.0]))
        else:
            integ = rr.choice(['whfast', 'whfast', 'ias15'])
            sysd = gen.planetary_system(rr, rr.randint(1, 3), mass_lo=1e-6, mass_hi=3e-4, hill_sep=12.0, emax=0.1)
            P = gen.inner_period(sysd)
            sim = rebound.Simulation()
            gen.add_system(sim, sysd)
            sim.integrator = integ
            sim.dt = P / (20.3 if integ != 'leapfrog' else 60.0)
            sim.init_megno(seed=rr.randrange(1, 1000))
            norb = {'whfast': 3000, 'ias15': 400, 'leapfrog': 600}[integ] * (3 if case['tier'] == 'thorough' else 1)
            # independent MEGNO: the same definition (Cincotta & Simo: Y = (2/t) int t dln|delta|, <Y> = (1/t) int Y dt, phase-space
            # norm with unit weights) evaluated on the finite difference of a shadow simulation displaced by h x the initial
            # variational vector.  No assumption that the orbit is regular: the two numbers must agree whatever the dynamics.
            nre = sim.N_real
            hfd = 1e-9
            v0 = [[getattr(sim.particles[nre + i], c_) for c_ in ('x', 'y', 'z', 'vx', 'vy', 'vz')] for i in range(nre)]
            sh = rebound.Simulation()
            gen.add_system(sh, sysd)
            sh.integrator = integ
            sh.dt = sim.dt
            for i in range(nre):
                for j_, c_ in enumerate(('x', 'y', 'z', 'vx', 'vy', 'vz')):
                    setattr(sh.particles[i], c_, getattr(sh.particles[i], c_) + hfd * v0[i][j_])
            nsamp = norb * 20
            dts = sim.dt
            Ys = Yss = 0.0
            Lprev = 0.0          # ln|delta(0)| = ln 1 (the initial variational vector is normalised per particle... measured below)
            tprev = 0.0
            mean_t = mean_Y = cov = var = 0.0
            first = True
            maxd = 0.0
            for k_ in range(nsamp):
                if integ == 'ias15':
                    tk = (k_ + 1) * dts
                    sim.integrate(tk, exact_finish_time=1)
                    sh.integrate(tk, exact_finish_time=1)
                else:
                    sim.steps(1)
                    sh.steps(1)
                d2 = 0.0
                for i in range(nre):
                    p, q = sim.particles[i], sh.particles[i]
                    d2 += (q.x - p.x) ** 2 + (q.y - p.y) ** 2 + (q.z - p.z) ** 2 + (q.vx - p.vx) ** 2 + (q.vy - p.vy) ** 2 + (q.vz - p.vz) ** 2
                L = 0.5 * math.log(d2 / hfd ** 2)
                if first:
                    # |delta(0)|^2 = number of particles (each particle's vector is normalised to 1)
                    Lprev = 0.5 * math.log(float(nre))
                    first = False
                tnow = sim.t
                Ys += 2.0 * 0.5 * (tnow + tprev) * (L - Lprev)
                Yss += (Ys / tnow) * (tnow - tprev)
                maxd = max(maxd, math.sqrt(d2))
                n_ = k_ + 1
                Ymean = Yss / tnow
                dt_ = tnow - mean_t
                mean_t += dt_ / n_
                dY_ = Ymean - mean_Y
                mean_Y += dY_ / n_
                cov += (n_ - 1.0) / n_ * (tnow - mean_t) * (Ymean - mean_Y)
                var += (n_ - 1.0) / n_ * (tnow - mean_t) ** 2
                Lprev, tprev = L, tnow
            Y, ly = sim.megno(), sim.lyapunov()
            Yfd = Yss / sim.t
            lyfd = cov / var if var else 0.0
            counters['megno_runs'] += 1
            if maxd > 1e-3:
                counters['megno_fd_left_linear_regime'] = counters.get('megno_fd_left_linear_regime', 0) + 1      # ambiguous: the shadow is no longer infinitesimally close
            else:
                key = 'max_megno_minus_fd_x1000:%s' % integ
                counters[key] = max(counters.get(key, 0), int(abs(Y - Yfd) * 1000))
                key = 'max_lyap_minus_fd_xT_x1000:%s' % integ
                counters[key] = max(counters.get(key, 0), int(abs(ly - lyfd) * sim.t * 1000))
                if not abs(Y - Yfd) < 0.02 + 0.01 * abs(Yfd):
                    add('megno:differs-from-finite-difference-megno:%s' % integ, '%s %d inner orbits, planets %r: MEGNO %r, from the shadow trajectory %r' % (integ, norb, [(round(p['a'], 3), p['m']) for p in sysd['planets']], Y, Yfd))
                if not abs(ly - lyfd) * sim.t < 0.6 + 0.05 * abs(lyfd) * sim.t:
                    add('megno:lyapunov-differs-from-finite-difference:%s' % integ, '%s %d inner orbits: lyapunov %r, from the shadow trajectory %r (x T: %.3f vs %.3f)' % (integ, norb, ly, lyfd, ly * sim.t, lyfd * sim.t))
                if abs(Yfd - 2.0) < 0.5:
                    counters['megno_regular_by_fd'] = counters.get('megno_regular_by_fd', 0) + 1
                    key = 'max_megno_dev_x1000:%s' % integ
                    counters[key] = max(counters.get(key, 0), int(abs(Y - 2) * 1000))
                    # regular by the independent measure: the advertised limit 2 (and Lyapunov -> 0) must be visible
                    if not abs(Y - 2.0) < 0.6:
                        add('megno:not-2-on-regular-orbit:%s' % integ, '%s %d inner orbits: MEGNO %r although the shadow-trajectory MEGNO is %r' % (integ, norb, Y, Yfd))
                    if not abs(ly) * sim.t < 40.0:
                        add('megno:lyapunov-not-small:%s' % integ, '%s %d inner orbits: lyapunov %r (x T = %.2f)' % (integ, norb, ly, abs(ly) * sim.t))
                else:
                    counters['megno_not_regular_by_fd'] = counters.get('megno_not_regular_by_fd', 0) + 1
            cells.add(json.dumps(['megno', integ, len(sysd['planets'])]))
    for v in viol:
        v['case_seed'] = case['seed']
    return dict(violations=viol, cells=[json.loads(c) for c in cells], counters=counters, sample=dict(seed=case['seed']))


def main(tier, seed):
    V = core.Verdict(PROPERTY, tier, seed)
    r = core.rng(PROPERTY, seed)
    nb = 192 if tier == 'quick' else 2000
    cases = [dict(seed=r.getrandbits(40), n=4, tier=tier, kinds=['constructors', 'evolution', 'evolution', 'evolution', 'rescale', 'megno']) for _ in range(nb)]
    res = core.run_cases('checks.c16_variational', 'rel', cases, timeout_case=1500)
    for c, rr in zip(cases, res):
        V.absorb(c, rr)
    for k in list(V.counters):
        if k.startswith('max_megno_dev_x1000:'):
            V.counters[k] = max(rr['counters'].get(k, 0) for rr in res if isinstance(rr, dict) and 'counters' in rr)
    inc = []
    for k in ('constructors_first', 'constructors_second', 'evolution_first', 'evolution_second', 'testparticle_variations', 'evolution_testparticle_variation_relative_to_jacobi_com', 'second_order_with_first_order_2_omitted', 'rescale_runs', 'rescales_triggered', 'megno_runs'):
        if V.counters.get(k, 0) == 0:
            inc.append('monitor counter %s is zero' % k)
    return V.finish(
        rule="constructors: 13 first-order and all supported second-order pairs x classical/Pal element sets x 4 G values x random primaries; evolution: {IAS15, BS} orders 1-2 and {WHFast, LEAPFROG} order 1 x "
             "{cartesian, mass, classical, Pal} parameters x varied particle index x test-particle variations x 3-20 orbits x both directions; rescaling; MEGNO; distinct = (monitor, integrator, order, parameters)",
        assumptions=["finite differences: 4th-order central stencils, steps 1e-4 (first order) / 1e-3..2e-3 (second order) of the natural unit; tolerances 1e-7 / 1e-5 (constructors) and 3e-6 / 2e-3 (evolution) of the derivative's own size",
                     "the element-to-Cartesian constructor used inside the finite differences is decided by C11"], floor=40, inconclusive_if=inc)


def replay(path):
    return 1
