"""C03 - Kepler propagation is exact for every two-body orbit and time step.

Monitors: (a) direct calls of reb_whfast_kepler_solver(r, p, mu, 0, dt) on harness-owned particles; (b) one real step of a
two-body simulation under every Wisdom-Holman-type integrator (WHFast x 4 coordinate systems, uncorrected SABA types,
MERCURIUS, TRACE, WHFast512 on the AVX512 build).
Oracle = backward error, evaluated with mpmath at 40 digits from the exact double inputs and outputs:
  orbit invariants (energy, angular-momentum vector, eccentricity vector) unchanged to K1 eps x (sum of |terms|), and the
  time of flight between the two states along that orbit equals dt to K2 eps (|dt| + r/v + 1/n).  Well conditioned where
  a forward position comparison is not (high e at pericentre, thousands of periods).  Also finiteness of all outputs and
  termination (per-call alarm; a worker killed by the alarm names the (orbit, dt) in flight).
"""
import json, math, os, random, signal
from vf import core

PROPERTY = "C03"
EPS = 2.0 ** -52
K1 = 2.0e5      # x envelope; observed maximum on the unchanged tree over 1e5 orbits is ~2e3 (see evidence: worst_backward_error)
K2 = 2.0e5


def gen_orbit(r):
    """returns dict with mu, a, e, phase choice, dt/P"""
    mu = 10 ** r.uniform(-6, 6)
    a = 10 ** r.uniform(-6, 6)
    cls = r.choice(['circ', 'low', 'mid', 'high', 'vhigh', 'hyp_low', 'hyp', 'hyp_high'])
    e = {'circ': 0.0 if r.random() < 0.5 else 10 ** r.uniform(-12, -3), 'low': r.uniform(0.001, 0.3), 'mid': r.uniform(0.3, 0.9), 'high': 1 - 10 ** r.uniform(-3, -1),
         'vhigh': 1 - 10 ** r.uniform(-5.9, -3), 'hyp_low': 1 + 10 ** r.uniform(-5.9, -1), 'hyp': r.uniform(1.1, 5), 'hyp_high': r.uniform(5, 50)}[cls]
    ph = r.choice(['peri', 'apo', 'rand', 'rand', 'near_peri'])
    if e < 1:
        M0 = {'peri': 0.0, 'apo': math.pi, 'rand': r.uniform(-math.pi, math.pi), 'near_peri': r.choice([-1, 1]) * 10 ** r.uniform(-8, -2)}[ph]
    else:
        M0 = {'peri': 0.0, 'apo': r.choice([-1, 1]) * 10 ** r.uniform(0, 2), 'rand': r.uniform(-5, 5), 'near_peri': r.choice([-1, 1]) * 10 ** r.uniform(-8, -2)}[ph]
        a = -a
    dtP = r.choice([-1, 1]) * 10 ** r.uniform(-8, 3)
    if r.random() < 0.15:
        dtP = r.choice([-1, 1]) * r.choice([1.0, 0.5, 2.0, 10.0, 100.0, 0.25, 1000.0])
    return dict(mu=mu, a=a, e=e, M0=M0, dtP=dtP, ecls=cls, phase=ph, inc=r.uniform(0, math.pi), Om=r.uniform(0, 6.28), om=r.uniform(0, 6.28))


def state_from_elements(mp, o):
    """mpmath: elements -> cartesian (relative orbit), rounded to doubles by the caller"""
    mu, a, e, M0 = mp.mpf(o['mu']), mp.mpf(o['a']), mp.mpf(o['e']), mp.mpf(o['M0'])
    if e < 1:
        E = M0
        for _ in range(200):
            dE = (E - e * mp.sin(E) - M0) / (1 - e * mp.cos(E))
            E -= dE
            if abs(dE) < mp.mpf(10) ** -35:
                break
        xp = a * (mp.cos(E) - e)
        yp = a * mp.sqrt(1 - e * e) * mp.sin(E)
        rr = a * (1 - e * mp.cos(E))
        fac = mp.sqrt(mu * a) / rr
        vxp = -fac * mp.sin(E)
        vyp = fac * mp.sqrt(1 - e * e) * mp.cos(E)
    else:
        F = mp.asinh(M0 / e) if e > 1.5 else M0
        for _ in range(500):
            dF = (e * mp.sinh(F) - F - M0) / (e * mp.cosh(F) - 1)
            F -= dF
            if abs(dF) < mp.mpf(10) ** -35:
                break
        aa = -a
        xp = aa * (e - mp.cosh(F))
        yp = aa * mp.sqrt(e * e - 1) * mp.sinh(F)
        rr = aa * (e * mp.cosh(F) - 1)
        fac = mp.sqrt(mu * aa) / rr
        vxp = -fac * mp.sinh(F)
        vyp = fac * mp.sqrt(e * e - 1) * mp.cosh(F)
    ci, si = mp.cos(o['inc']), mp.sin(o['inc'])
    cO, sO = mp.cos(o['Om']), mp.sin(o['Om'])
    co, so = mp.cos(o['om']), mp.sin(o['om'])

    def rot(x, y):
        x1, y1 = co * x - so * y, so * x + co * y
        return (cO * x1 - sO * ci * y1, sO * x1 + cO * ci * y1, si * y1)
    X = rot(xp, yp)
    Vv = rot(vxp, vyp)
    return [float(q) for q in X] + [float(q) for q in Vv]


def propagate_mp(mp, mu, x0, v0, dt):
    """Independent two-body propagator: universal variables, Stumpff functions from mp trig/hyperbolic functions,
    safeguarded Newton (the universal Kepler function is monotone: dF/dchi = r > 0)."""
    dot = lambda a, b: a[0] * b[0] + a[1] * b[1] + a[2] * b[2]
    r0 = mp.sqrt(dot(x0, x0))
    sm = mp.sqrt(mu)
    alpha = 2 / r0 - dot(v0, v0) / mu
    rv = dot(x0, v0) / sm

    def CS(z):
        if abs(z) < mp.mpf(10) ** -12:
            return (mp.mpf(1) / 2 - z / 24 + z * z / 720, mp.mpf(1) / 6 - z / 120 + z * z / 5040)
        if z > 0:
            s = mp.sqrt(z)
            return ((1 - mp.cos(s)) / z, (s - mp.sin(s)) / (s * z))
        s = mp.sqrt(-z)
        return ((mp.cosh(s) - 1) / (-z), (mp.sinh(s) - s) / (s * (-z)))

    def F(chi):
        z = alpha * chi * chi
        C, S = CS(z)
        val = rv * chi * chi * C + (1 - alpha * r0) * chi ** 3 * S + r0 * chi - sm * dt
        der = rv * chi * (1 - z * S) + (1 - alpha * r0) * chi * chi * C + r0
        return val, der
    # bracket
    lo, hi = (mp.mpf(0), mp.mpf(0))
    step = sm * dt / r0 if dt != 0 else mp.mpf(0)
    if step == 0:
        return list(x0), list(v0)
    chi = step
    if dt > 0:
        while F(chi)[0] < 0:
            lo = chi
            chi *= 2
        hi = chi
    else:
        while F(chi)[0] > 0:
            hi = chi
            chi *= 2
        lo = chi
    # rtsafe: Newton, falling back to bisection whenever Newton leaves the bracket or fails to halve it
    chi = (lo + hi) / 2
    dxold = abs(hi - lo)
    dx = dxold
    val, der = F(chi)
    tol = mp.mpf(10) ** -(mp.mp.dps - 8)
    for _ in range(2000):
        if (((chi - hi) * der - val) * ((chi - lo) * der - val) > 0) or (abs(2 * val) > abs(dxold * der)):
            dxold = dx
            dx = (hi - lo) / 2
            chi = lo + dx
        else:
            dxold = dx
            dx = val / der
            chi = chi - dx
        if abs(dx) <= abs(chi) * tol:
            break
        val, der = F(chi)
        if val < 0:
            lo = chi
        else:
            hi = chi
    z = alpha * chi * chi
    C, S = CS(z)
    f = 1 - chi * chi / r0 * C
    g = dt - chi ** 3 / sm * S
    x1 = [f * x0[i] + g * v0[i] for i in range(3)]
    r1 = mp.sqrt(dot(x1, x1))
    fd = sm / (r1 * r0) * chi * (z * S - 1)
    gd = 1 - chi * chi / r1 * C
    v1 = [fd * x0[i] + gd * v0[i] for i in range(3)]
    return x1, v1


def backward_error(mp, mu, s0, s1, dt):
    """returns dict(ok, reason) using exact double inputs in mp arithmetic"""
    mu = mp.mpf(mu)
    x0, v0 = [mp.mpf(q) for q in s0[:3]], [mp.mpf(q) for q in s0[3:]]
    x1, v1 = [mp.mpf(q) for q in s1[:3]], [mp.mpf(q) for q in s1[3:]]
    dot = lambda a, b: a[0] * b[0] + a[1] * b[1] + a[2] * b[2]
    cross = lambda a, b: [a[1] * b[2] - a[2] * b[1], a[2] * b[0] - a[0] * b[2], a[0] * b[1] - a[1] * b[0]]
    norm = lambda a: mp.sqrt(dot(a, a))
    r0, r1 = norm(x0), norm(x1)
    E0 = dot(v0, v0) / 2 - mu / r0
    E1 = dot(v1, v1) / 2 - mu / r1
    escale = dot(v0, v0) / 2 + mu / r0
    eps = mp.mpf(EPS)
    res = {}
    res['dE'] = float(abs(E1 - E0) / (eps * escale))
    h0, h1 = cross(x0, v0), cross(x1, v1)
    hs = r0 * norm(v0) + mp.mpf(10) ** -300
    res['dh'] = float(norm([h1[i] - h0[i] for i in range(3)]) / (eps * hs))
    # eccentricity vector  e = (v x h)/mu - x/r ; scale = |v|^2 r/mu + 1
    def evec(x, v, h, r):
        c = cross(v, h)
        return [c[i] / mu - x[i] / r for i in range(3)]
    e0, e1 = evec(x0, v0, h0, r0), evec(x1, v1, h1, r1)
    es = dot(v0, v0) * r0 / mu + 1
    res['de'] = float(norm([e1[i] - e0[i] for i in range(3)]) / (eps * es))
    # timing: propagate state 0 by dt with an independent universal-variable solver (mp, all eccentricities) and measure the
    # along-track time offset of the returned state: dt_err = (x1 - x_ref).v_ref/|v_ref|^2
    xr, vr = propagate_mp(mp, mu, x0, v0, mp.mpf(dt))
    dtime = dot([x1[i] - xr[i] for i in range(3)], vr) / dot(vr, vr)
    a = 1 / (2 / r0 - dot(v0, v0) / mu)
    ecc = norm(e0)
    nmean = mp.sqrt(mu / abs(a) ** 3)
    tscale = abs(mp.mpf(dt)) + r0 / (norm(v0) + mp.mpf(10) ** -300) + norm(xr) / (norm(vr) + mp.mpf(10) ** -300)
    res['dt'] = float(abs(dtime) / (eps * tscale))
    res['e'] = float(ecc)
    return res


def run_case(case):
    import ctypes, warnings, sys
    warnings.simplefilter('ignore')
    sys.path.insert(0, os.path.join(os.path.dirname(os.path.dirname(os.path.abspath(__file__))), '.deps'))
    import mpmath as mp
    mp.mp.dps = 50
    import rebound
    from rebound import clibrebound as clib
    r = random.Random(case['seed'])
    viol = []
    counters = dict(calls=0, steps=0, oracle_evals=0, skipped_near_parabolic=0)
    cells = set()
    kind = case['kind']
    fd = os.open('inflight.txt', os.O_WRONLY | os.O_CREAT, 0o644)

    def note(o, dt):
        os.lseek(fd, 0, 0)
        os.write(fd, (json.dumps(dict(orbit=o, dt=dt, kind=kind, integ=case.get('integ'))) + ' ' * 64).encode()[:1500].ljust(1500))
    signal.signal(signal.SIGALRM, signal.SIG_DFL)     # default action: kill this worker = "did not return"
    worst = dict(dE=0, dh=0, de=0, dt=0)
    sim0 = rebound.Simulation()
    PA = rebound.Particle * 1
    for _ in range(case['n']):
        o = gen_orbit(r)
        if abs(1 - o['e']) < 1e-6:
            counters['skipped_near_parabolic'] += 1
            continue
        s0 = state_from_elements(mp, o)
        mu = o['mu']
        P = 2 * math.pi * math.sqrt(abs(o['a']) ** 3 / mu)
        dt = o['dtP'] * P
        note(o, dt)
        signal.setitimer(signal.ITIMER_REAL, 10.0)
        if kind == 'direct':
            pa = PA()
            p = pa[0]
            p.x, p.y, p.z, p.vx, p.vy, p.vz = s0
            p.m = 1.0
            clib.reb_whfast_kepler_solver(ctypes.byref(sim0), pa, ctypes.c_double(mu), ctypes.c_uint(0), ctypes.c_double(dt))
            s1 = [p.x, p.y, p.z, p.vx, p.vy, p.vz]
            counters['calls'] += 1
            mu_eff = mu
        else:
            integ = case['integ']
            sim = rebound.Simulation()
            G = case['G']
            sim.G = G
            m0 = mu / G
            massive = (integ == 'whfast:jacobi' or integ.startswith('saba')) and case['massive']
            mp_ = m0 * 10 ** r.uniform(-8, -1) if massive else 0.0
            mtot = m0 + mp_
            # keep mu of the relative orbit = G (m0+mp)
            m0 = m0 * (mu / (G * mtot))
            mp_ = mp_ * (mu / (G * mtot))
            sim.add(m=m0)
            sim.add(m=mp_, x=s0[0], y=s0[1], z=s0[2], vx=s0[3], vy=s0[4], vz=s0[5])
            if mp_ == 0.0 and integ != 'whfast512' and r.random() < 0.5:
                # the orbiting body as a genuine test particle (index >= N_active): the integrators take a separate branch for those
                sim.N_active = 1
                sim.testparticle_type = r.choice([0, 1])
                counters['steps_with_testparticle_planet'] = counters.get('steps_with_testparticle_planet', 0) + 1
            if integ.startswith('whfast:'):
                sim.integrator = 'whfast'
                sim.ri_whfast.coordinates = integ.split(':')[1]
            elif integ.startswith('saba'):
                sim.integrator = 'saba'
                sim.ri_saba.type = integ.split(':')[1]
            elif integ == 'trace':
                sim.integrator = 'trace'
                sim.ri_trace.S_peri = 'none'
            elif integ == 'whfast512':
                sim.integrator = 'whfast512'
                sim.exact_finish_time = 0
            else:
                sim.integrator = integ
            if integ == 'whfast512' and dt < 0:
                dt = -dt
            sim.dt = dt
            try:
                sim.steps(1)
                sim.synchronize()       # WHFast512 only writes the particle array when synchronising
            except Exception as ex:
                signal.setitimer(signal.ITIMER_REAL, 0)
                viol.append(dict(mech='kepler:step-raises:%s' % integ, msg='%s: %s (orbit %r dt %r)' % (type(ex).__name__, ex, o, dt)))
                continue
            p0, p1 = sim.particles[0], sim.particles[1]
            # exact relative state in (nearly) exact arithmetic: difference of doubles is exact enough in mp
            s1m = [mp.mpf(p1.x) - mp.mpf(p0.x), mp.mpf(p1.y) - mp.mpf(p0.y), mp.mpf(p1.z) - mp.mpf(p0.z),
                   mp.mpf(p1.vx) - mp.mpf(p0.vx), mp.mpf(p1.vy) - mp.mpf(p0.vy), mp.mpf(p1.vz) - mp.mpf(p0.vz)]
            s1 = s1m
            counters['steps'] += 1
            mu_eff = mp.mpf(G) * (mp.mpf(sim.particles[0].m) + mp.mpf(sim.particles[1].m))
            # the relative input state: planet - star at t0 (star at origin at rest: exact)
        signal.setitimer(signal.ITIMER_REAL, 0)
        fl = [float(q) for q in s1]
        if not all(math.isfinite(q) for q in fl):
            if case.get('integ') == 'whfast512' and (abs(o['dtP']) > 0.05 or o['e'] >= 0.9):
                viol.append(dict(mech='kepler:whfast512:step-not-small-vs-period-or-high-e', msg='non-finite output: orbit %r dt=%r -> %r' % (o, dt, fl)))
                continue
            viol.append(dict(mech='kepler:non-finite-output:%s' % (case.get('integ') or 'solver'), msg='orbit %r dt=%r -> %r' % (o, dt, fl)))
            continue
        be = backward_error(mp, mu_eff, s0, s1, dt)
        counters['oracle_evals'] += 1
        # Rounding-error class of the universal-variable method (measured envelope of the unchanged code, see DESIGN.md C03):
        # grows like (dt/P)^2 through the Stumpff argument reduction and like 1/(1-e)^2 through cancellation in f,g near the parabolic limit.
        cond = 1.0 / abs(1.0 - be['e']) if be['e'] != 1.0 else 1e300
        env = (1.0 + o['dtP'] ** 2) * max(1.0, cond * cond / 100.0)
        scale_k = env * (1.0 if kind == 'direct' else 16.0)     # a full step composes several drifts; the relative state is a difference of two rounded vectors
        bad = [q for q in ('dE', 'dh', 'de') if not (be[q] <= K1 * scale_k)] + (['dt'] if not (be['dt'] <= K2 * scale_k) else [])
        if bad:
            who = case.get('integ') or 'solver'
            mech = 'kepler:%s:off-orbit-or-wrong-time:%s' % (who, 'hyperbolic' if o['e'] > 1 else 'elliptic')
            # the solver's "straight line motion" exception: velocity returned bit-identical, position advanced by v*dt
            if o['e'] > 1:
                def straight(sin, sout, dtt, tolv, tolx):
                    vs = max(abs(q) for q in sin[3:]) + 1e-300
                    lin = [sin[i] + sin[3 + i] * dtt for i in range(3)]
                    ls = max(abs(q) for q in lin) + max(abs(q) for q in sin[:3])
                    return all(abs(sout[3 + i] - sin[3 + i]) <= tolv * vs for i in range(3)) and all(abs(sout[i] - lin[i]) <= tolx * ls for i in range(3))
                if kind == 'direct':
                    if straight(s0, fl, dt, 0.0, 1e-12):
                        mech = 'kepler:hyperbolic-straight-line-exception'
                else:
                    # a full step is a composition of several drifts: attribute it to the solver's exception if the solver, called directly on
                    # this orbit with the step or one of its usual fractions, takes that exception
                    for frac in [q / 100.0 for q in range(100, 0, -1)] + [-q / 100.0 for q in range(1, 101)]:   # SABA drifts use many (also negative) fractions
                        pa = PA()
                        p = pa[0]
                        p.x, p.y, p.z, p.vx, p.vy, p.vz = s0
                        p.m = 1.0
                        clib.reb_whfast_kepler_solver(ctypes.byref(sim0), pa, ctypes.c_double(float(mu_eff)), ctypes.c_uint(0), ctypes.c_double(dt * frac))
                        if straight(s0, [p.x, p.y, p.z, p.vx, p.vy, p.vz], dt * frac, 0.0, 1e-12):
                            mech = 'kepler:hyperbolic-straight-line-exception'
                            break
                    # composite schemes (SABA with forward and backward drifts) take the exception from an intermediate state. Its signature:
                    # x += v*tau leaves x cross v untouched, so angular momentum is conserved to rounding while the energy is not.
                    if mech != 'kepler:hyperbolic-straight-line-exception' and be['dh'] <= K1 * scale_k and 'dh' not in bad:
                        mech = 'kepler:hyperbolic-straight-line-exception'
            if who == 'whfast512' and (abs(o['dtP']) > 0.05 or o['e'] >= 0.9):
                # WHFast512's vectorised solver has no Stumpff argument reduction and a fixed iteration count
                mech = 'kepler:whfast512:step-not-small-vs-period-or-high-e'
            if mech not in ('kepler:hyperbolic-straight-line-exception', 'kepler:whfast512:step-not-small-vs-period-or-high-e'):
                for q in ('dE', 'dh', 'de', 'dt'):
                    worst[q] = max(worst[q], be[q] / env)
            viol.append(dict(mech=mech, msg='backward error (units of eps x scale) %r exceeds %g x envelope %.3g in %r; orbit %r dt=%r input %r output %r' % (
                {k: be[k] for k in ('dE', 'dh', 'de', 'dt')}, K1, scale_k, bad, o, dt, s0, fl)))
        if not bad:
            for q in ('dE', 'dh', 'de', 'dt'):
                worst[q] = max(worst[q], be[q] / env)
                if be[q] / env > worst.get('max', 0):
                    worst['max'] = be[q] / env
                    worst['argmax'] = dict(q=q, orbit=o, integ=case.get('integ') or 'solver', be={k: be[k] for k in ('dE', 'dh', 'de', 'dt')}, env=env)
        dec = int(math.floor(math.log10(abs(o['dtP']))))
        cells.add(json.dumps([case.get('integ') or 'solver', o['ecls'], o['phase'], 1 if dt > 0 else -1, dec]))
    os.close(fd)
    counters['worst_dE_x1000'] = 0
    return dict(violations=viol, cells=[json.loads(c) for c in cells], counters=counters, worst=worst,
                sample=dict(kind=kind, integ=case.get('integ'), worst=worst) if r.random() < 0.05 else None)


INTEGS = ['whfast:jacobi', 'whfast:democraticheliocentric', 'whfast:whds', 'whfast:barycentric', 'saba:1', 'saba:2', 'saba:3', 'saba:4', 'saba:10,4', 'saba:8,6,4',
          'saba:10,6,4', 'saba:h8,4,4', 'saba:h8,6,4', 'saba:h10,6,4', 'mercurius', 'trace']


def crash_mech(case, res):
    cr = res['crash']
    if cr.get('signal') == 14:
        return 'kepler:does-not-return:%s' % (case.get('integ') or 'solver')
    return 'kepler:process-death:signal%s:%s' % (cr.get('signal'), case.get('integ') or 'solver')


def main(tier, seed):
    V = core.Verdict(PROPERTY, tier, seed)
    r = core.rng(PROPERTY, seed)
    nb, per = (160, 150) if tier == 'quick' else (2400, 250)
    have512 = 'avx512f' in open('/proc/cpuinfo').read()
    cases = {'rel': [], 'avx512': []}
    for i in range(nb):
        cases['rel'].append(dict(kind='direct', seed=r.getrandbits(40), n=per))
    for i in range(nb):
        integ = INTEGS[i % len(INTEGS)]
        cases['rel'].append(dict(kind='step', integ=integ, seed=r.getrandbits(40), n=per // 3, G=r.choice([1.0, 6.674e-11, 39.478]), massive=r.random() < 0.5))
    for i in range(max(4, nb // 12)):
        cases['avx512'].append(dict(kind='step', integ='whfast512', seed=r.getrandbits(40), n=per // 3, G=1.0, massive=False))
    worst = dict(dE=0, dh=0, de=0, dt=0)
    for variant, cs in cases.items():
        if variant == 'avx512' and not have512:
            V.inconclusive.append('CPU lacks avx512f: WHFast512 not exercised')
            continue
        res = core.run_cases('checks.c03_kepler', variant, cs, timeout_case=600)
        for c, rr in zip(cs, res):
            V.absorb(c, rr, crash_mech)
            if rr and 'worst' in rr:
                for q in ('dE', 'dh', 'de', 'dt'):
                    worst[q] = max(worst[q], rr['worst'][q])
                key = 'max_direct' if c['kind'] == 'direct' else 'max_step'
                if rr['worst'].get('max', 0) > worst.get(key, 0):
                    worst[key] = rr['worst']['max']
                    worst['arg' + key] = rr['worst'].get('argmax')
    inc = []
    for k in ('calls', 'steps', 'oracle_evals'):
        if V.counters.get(k, 0) == 0:
            inc.append('monitor counter %s is zero' % k)
    return V.finish(
        rule="random two-body orbits (mu, |a| over 12 decades, e in [0,1) u (1,50] excluding |1-e|<1e-6, phases incl. exact pericentre/apocentre, any orientation) x dt with |dt| from 1e-8 to 1e3 periods, "
             "both signs; direct solver calls and single real steps of every WH-type integrator; distinct = (solver|integrator, eccentricity class, phase class, sign dt, decade of dt/P)",
        extra_cov=dict(worst_backward_error_in_eps_units=worst, bound_K1=K1, bound_K2=K2),
        assumptions=["mpmath 40-digit evaluation of orbit invariants and time of flight from the exact double inputs/outputs", "bounds: K eps x sum-of-magnitude scales (K=%g; x16 for full steps)" % K1],
        floor=100, inconclusive_if=inc)


def replay(path):
    return 1
