"""C12 - coordinate transformations are mutual inverses and carry the centre of mass.

Direct ctypes calls of every exported reb_particles_transform_* on harness-owned arrays.  Output arrays are pre-filled with a
NaN canary in every member, so missing writes (canary left in x..vz) and unexpected writes (canary gone from r / hash / ...)
are both visible; half the cases run on the ASan build (out-of-bounds).  Oracles:
  - forward transform vs an independent long-double implementation of the textbook definitions (Jacobi, democratic
    heliocentric, WHDS, barycentric), incl. slot 0 = (M_active, COM position, COM velocity of the active particles);
  - inverse(forward(x)) == x to K eps N scale cond;
  - *_pos inverse positions == *_posvel inverse positions; *_acc == the position map applied to the accelerations;
    posvelacc == posvel + acc.
Then the same identities through the integrators' own use (WHFast from/to inertial in all four coordinate systems,
MERCURIUS / TRACE inertial<->dh) and the public move_to_com / move_to_hel.
"""
import json, math, random
from vf import core
from vf.num import gt, nmax as max, nmin as min

PROPERTY = "C12"
EPS = 2.0 ** -52
SYSTEMS = ['jacobi', 'democraticheliocentric', 'whds', 'barycentric']


def run_case(case):
    import ctypes, warnings
    warnings.simplefilter('ignore')
    import numpy as np
    import rebound
    from rebound import clibrebound as clib
    from rebound import Particle
    r = random.Random(case['seed'])
    N, Na, sysname = case['N'], case['N_active'], case['system']
    viol = []
    counters = {'arrays': 1, 'roundtrips': 0, 'forward_vs_definition': 0, 'variant_agreements': 0, 'canary_members_checked': 0, 'integrator_roundtrips': 0}
    ld = np.longdouble
    PA = Particle * max(N, 1)

    def rnd_mass(i):
        if i == 0:
            return 10 ** r.uniform(-2, 1)
        k = r.random()
        if k < 0.15:
            return 0.0
        return 10 ** r.uniform(-12, 0) if case['massmode'] == 'wide' else 10 ** r.uniform(-6, -3)
    m = [rnd_mass(i) for i in range(N)]
    scale = 10 ** r.uniform(-2, 3)
    X = np.array([[r.uniform(-1, 1) * scale for _ in range(3)] + [r.uniform(-1, 1) * scale * 0.3 for _ in range(3)] + [r.uniform(-1, 1) for _ in range(3)] for _ in range(N)], dtype=float).reshape(N, 9)
    M = np.array(m, dtype=float)

    CAN = float.fromhex('0x1.5a5a5a5a5a5a5p+600')      # canary (finite, absurd) - NaN cannot be compared bitwise portably
    CANH = 0xA5A5A5A5

    def blank(keep_m=None):
        a = PA()
        for i in range(N):
            p = a[i]
            for f in ('x', 'y', 'z', 'vx', 'vy', 'vz', 'ax', 'ay', 'az', 'm', 'r', 'last_collision'):
                setattr(p, f, CAN)
            p._hash = CANH
            if keep_m is not None:
                p.m = float(keep_m[i])
        return a

    def fill():
        a = PA()
        for i in range(N):
            p = a[i]
            p.x, p.y, p.z, p.vx, p.vy, p.vz, p.ax, p.ay, p.az = [float(q) for q in X[i]]
            p.m = float(M[i])
            p.r = 0.125 + i
            p._hash = 1000 + i
            p.last_collision = -3.5
        return a

    def arr(a, fields=('x', 'y', 'z', 'vx', 'vy', 'vz')):
        return np.array([[getattr(a[i], f) for f in fields] for i in range(N)], dtype=float).reshape(N, len(fields))

    def check_canaries(a, written, what):
        """members not in `written` must still hold the canary; members in written (x..vz set) must not"""
        for i in range(N):
            p = a[i]
            for f in ('x', 'y', 'z', 'vx', 'vy', 'vz', 'ax', 'ay', 'az', 'r', 'last_collision'):
                counters['canary_members_checked'] += 1
                v = getattr(p, f)
                if f in written:
                    if v == CAN:
                        viol.append(dict(mech='transform:%s:member-not-written:%s' % (what, f), msg='%s left %s of element %d (N=%d, N_active=%d) unwritten' % (what, f, i, N, Na)))
                        return
                elif v != CAN:
                    viol.append(dict(mech='transform:%s:unexpected-write:%s' % (what, f), msg='%s wrote %s of element %d' % (what, f, i)))
                    return
            if p._hash != CANH:
                viol.append(dict(mech='transform:%s:unexpected-write:hash' % what, msg='%s wrote hash of element %d' % (what, i)))
                return

    fn = lambda name: getattr(clib, 'reb_particles_transform_' + name)
    src = fill()
    u = ctypes.c_uint
    jac = sysname == 'jacobi'

    # The Jacobi routines take the masses from a separate array (WHFast hands in variational particles, whose own m is 0 or a mass
    # variation, together with the real particles as mass array): in half of the Jacobi cases the particle arrays carry DECOY masses and the
    # true masses come only through p_mass - every result must be the same as with the masses in place.
    sepmass = jac and N >= 1 and (case.get('seed', 0) % 2 == 1)
    pm = fill()
    if sepmass:
        counters['jacobi_cases_with_separate_mass_array'] = counters.get('jacobi_cases_with_separate_mass_array', 0) + 1
        decoy = [0.0 if (i + case.get('seed', 0)) % 3 == 0 else float(M[(i + 1) % N]) * 1.7 + 0.3 for i in range(N)]
        for i in range(N):
            src[i].m = decoy[i]
        _blank0 = blank

        def blank(keep_m=None):
            return _blank0(keep_m=decoy if keep_m is not None else None)

    def call(name, a, b):
        if jac:
            fn(name)(a, b, pm, u(N), u(Na))
        else:
            fn(name)(a, b, u(N), u(Na))

    # ---------------- independent definition of the forward map (long double)
    Xl, Ml = X.astype(ld), M.astype(ld)
    act = np.arange(N) < Na
    Mact = Ml[act].sum()
    com = (Ml[act, None] * Xl[act, :]).sum(axis=0) / Mact      # COM of x,v,a of active particles
    want = np.zeros((N, 9), dtype=ld)
    if sysname == 'jacobi':
        eta = Ml[0]
        s = Ml[0] * Xl[0]
        for i in range(1, N):
            if i < Na:
                want[i] = Xl[i] - s / eta
                eta = eta + Ml[i]
                s = s + Ml[i] * Xl[i]
            else:
                want[i] = Xl[i] - com
    elif sysname == 'democraticheliocentric':
        for i in range(1, N):
            want[i, 0:3] = Xl[i, 0:3] - Xl[0, 0:3]
            want[i, 3:6] = Xl[i, 3:6] - com[3:6]
    elif sysname == 'whds':
        for i in range(1, N):
            want[i, 0:3] = Xl[i, 0:3] - Xl[0, 0:3]
            if i < Na:
                mf = (Ml[0] + Ml[i]) / Ml[0]
                want[i, 3:6] = mf * (Xl[i, 3:6] - com[3:6])
            else:
                want[i, 3:6] = Xl[i, 3:6] - com[3:6]
    elif sysname == 'barycentric':
        for i in range(1, N):
            want[i] = Xl[i] - com
    want[0] = com
    cond = float(Mact / Ml[0]) if N else 1.0
    sc = float(np.abs(X[:, 0:6]).max()) if N else 1.0
    tol = 64 * EPS * max(N, 1) * sc * max(cond, 1.0)

    # ---------------- forward posvel
    out = blank()
    call('inertial_to_%s_posvel' % sysname, src, out)
    check_canaries(out, ('x', 'y', 'z', 'vx', 'vy', 'vz'), 'inertial_to_%s_posvel' % sysname)
    got = arr(out)
    counters['forward_vs_definition'] += 1
    if N:
        d = np.abs(got.astype(ld) - want[:, 0:6])
        if not (float(d.max()) <= tol):
            i = int(np.argmax(d.max(axis=1)))
            mech = 'transform:%s:slot0-is-not-total-mass-and-com' % sysname if i == 0 else 'transform:%s:forward-differs-from-definition' % sysname
            viol.append(dict(mech=mech, msg='element %d (N=%d N_active=%d): got %r, definition %r, tol %.3e' % (i, N, Na, got[i].tolist(), [float(q) for q in want[i, 0:6]], tol)))
        if gt(abs(out[0].m - float(Mact)), 8 * EPS * N * float(Mact)):
            viol.append(dict(mech='transform:%s:slot0-is-not-total-mass-and-com' % sysname, msg='slot 0 mass %r, sum of active masses %r (N=%d N_active=%d)' % (out[0].m, float(Mact), N, Na)))
    # ---------------- inverse posvel
    back = blank(keep_m=M)
    call('%s_to_inertial_posvel' % sysname, back, out)
    counters['roundtrips'] += 1
    gb = arr(back)
    if N:
        d = np.abs(gb - X[:, 0:6])
        if not (float(d.max()) <= 4 * tol):
            i = int(np.argmax(d.max(axis=1)))
            viol.append(dict(mech='transform:%s:roundtrip' % sysname, msg='element %d (N=%d N_active=%d cond=%.2e): back %r orig %r tol %.3e' % (i, N, Na, cond, gb[i].tolist(), X[i, 0:6].tolist(), 4 * tol)))
        if any(back[i].x == CAN or back[i].vx == CAN for i in range(N)):
            viol.append(dict(mech='transform:%s:inverse-member-not-written' % sysname, msg='inverse posvel left a canary'))
    # ---------------- pos-only inverse agrees with posvel inverse
    backp = blank(keep_m=M)
    call('%s_to_inertial_pos' % sysname, backp, out)
    counters['variant_agreements'] += 1
    if N:
        gp = arr(backp, ('x', 'y', 'z'))
        d = np.abs(gp - gb[:, 0:3])
        if not (float(d.max()) <= 8 * EPS * sc * max(cond, 1.0) * max(N, 1)):
            i = int(np.argmax(d.max(axis=1)))
            viol.append(dict(mech='transform:%s:pos-variant-disagrees-with-posvel' % sysname, msg='element %d (N=%d N_active=%d): pos-only %r, posvel %r' % (i, N, Na, gp[i].tolist(), gb[i, 0:3].tolist())))
        if any(backp[i].vx != CAN for i in range(N)):
            viol.append(dict(mech='transform:%s:pos-variant-writes-velocity' % sysname, msg='_pos inverse wrote a velocity'))
    # ---------------- acc variants (jacobi, barycentric)
    if sysname in ('jacobi', 'barycentric'):
        sa = float(np.abs(X[:, 6:9]).max()) if N else 1.0
        have_fwd = hasattr(clib, 'reb_particles_transform_inertial_to_%s_acc' % sysname)
        if have_fwd:
            outa = blank()
            call('inertial_to_%s_acc' % sysname, src, outa)
            ga = arr(outa, ('ax', 'ay', 'az'))
            counters['variant_agreements'] += 1
            if N:
                # same linear operator as the position map: definition applied to the accelerations
                d = np.abs(ga.astype(ld) - want[:, 6:9])
                if not (float(d.max()) <= 64 * EPS * N * sa * max(cond, 1.0)):
                    i = int(np.argmax(d.max(axis=1)))
                    viol.append(dict(mech='transform:%s:acc-variant-differs-from-position-map' % sysname, msg='element %d (N=%d N_active=%d): acc %r, position map of accelerations %r' % (i, N, Na, ga[i].tolist(), [float(q) for q in want[i, 6:9]])))
        # inverse acc, fed with the definition's transformed accelerations
        ina = blank()
        for i in range(N):
            ina[i].m = out[i].m
            ina[i].ax, ina[i].ay, ina[i].az = [float(q) for q in want[i, 6:9]]
        backa = blank(keep_m=M)
        call('%s_to_inertial_acc' % sysname, backa, ina)
        counters['variant_agreements'] += 1
        if N:
            gba = arr(backa, ('ax', 'ay', 'az'))
            d = np.abs(gba - X[:, 6:9])
            if not (float(d.max()) <= 256 * EPS * N * sa * max(cond, 1.0)):
                i = int(np.argmax(d.max(axis=1)))
                viol.append(dict(mech='transform:%s:acc-inverse-differs-from-position-map' % sysname, msg='element %d (N=%d N_active=%d): back %r orig %r' % (i, N, Na, gba[i].tolist(), X[i, 6:9].tolist())))
    if sysname == 'jacobi':
        outpva = blank()
        call('inertial_to_jacobi_posvelacc', src, outpva)
        counters['variant_agreements'] += 1
        if N:
            g2 = arr(outpva, ('x', 'y', 'z', 'vx', 'vy', 'vz', 'ax', 'ay', 'az'))
            d = np.abs(g2.astype(ld) - want)
            if not (float(d.max()) <= 64 * EPS * N * max(sc, 1.0) * max(cond, 1.0)):
                viol.append(dict(mech='transform:jacobi:posvelacc-variant-disagrees', msg='max diff %.3e' % float(d.max())))
    # ---------------- through the integrators' own use
    if case.get('integrator') and N >= 2:
        sim = rebound.Simulation()
        for i in range(N):
            sim.add(m=float(M[i]) if (i < Na or case['tptype'] == 1) else (float(M[i]) if case['massive_test'] else 0.0), x=float(X[i, 0]), y=float(X[i, 1]), z=float(X[i, 2]), vx=float(X[i, 3]), vy=float(X[i, 4]), vz=float(X[i, 5]))
        sim.N_active = Na if Na < N else -1
        sim.testparticle_type = case['tptype']
        sim.testparticle_hidewarnings = 1
        integ = case['integrator']
        before = np.array([[p.x, p.y, p.z, p.vx, p.vy, p.vz] for p in sim.particles])
        if integ == 'whfast':
            sim.integrator = 'whfast'
            sim.ri_whfast.coordinates = sysname
            sim.dt = 1e-3
            clib.reb_integrator_whfast_init(ctypes.byref(sim))
            clib.reb_integrator_whfast_from_inertial(ctypes.byref(sim))
            for p in sim.particles:
                p.x = p.y = p.z = p.vx = p.vy = p.vz = CAN
            clib.reb_integrator_whfast_to_inertial(ctypes.byref(sim))
        elif integ == 'mercurius':
            clib.reb_integrator_mercurius_inertial_to_dh(ctypes.byref(sim))
            clib.reb_integrator_mercurius_dh_to_inertial(ctypes.byref(sim))
        elif integ == 'trace':
            clib.reb_integrator_trace_inertial_to_dh(ctypes.byref(sim))
            clib.reb_integrator_trace_dh_to_inertial(ctypes.byref(sim))
        after = np.array([[p.x, p.y, p.z, p.vx, p.vy, p.vz] for p in sim.particles])
        counters['integrator_roundtrips'] += 1
        Mi = np.array([p.m for p in sim.particles])
        Nae = N if (sim.N_active == -1 or case['tptype'] == 1) else Na
        condi = float(Mi[:Nae].sum() / Mi[0])
        d = np.abs(after - before)
        if not (float(d.max()) <= 256 * EPS * N * sc * max(condi, 1.0)):
            i = int(np.argmax(d.max(axis=1)))
            viol.append(dict(mech='transform:%s-integrator-roundtrip:%s' % (integ, sysname if integ == 'whfast' else 'dh'),
                             msg='particle %d (N=%d N_active=%d type=%d massive_test=%r): after %r before %r' % (i, N, Na, case['tptype'], case['massive_test'], after[i].tolist(), before[i].tolist())))
    cell = [sysname, 'N1' if N == 1 else 'N2' if N == 2 else 'Nmany', 'allactive' if Na == N else 'split', case['massmode'], case.get('integrator'), case['tptype'], case['variant']]
    for v in viol:
        v['case'] = dict(case)
    return dict(violations=viol, cell=cell, counters=counters, sample=dict(case) if r.random() < 0.005 else None)


def plan(tier, seed):
    r = core.rng(PROPERTY, seed)
    n = 30000 if tier == "quick" else 600000
    out = {'rel': [], 'asan': []}
    for i in range(n):
        variant = 'asan' if i % 2 else 'rel'
        N = r.choice([1, 2, 3, 4, 5, 7, 12, 33, 64])
        Na = r.choice([N, N, r.randint(1, N)])
        c = dict(seed=r.getrandbits(40), N=N, N_active=Na, system=r.choice(SYSTEMS), massmode=r.choice(['wide', 'planetary']), variant=variant, tptype=r.choice([0, 1]),
                 massive_test=r.random() < 0.3)
        if r.random() < 0.35:
            c['integrator'] = r.choice(['whfast', 'whfast', 'mercurius', 'trace'])
            c['massmode'] = 'planetary'
        out[variant].append(c)
    return out


def main(tier, seed):
    from checks.c14_bookkeeping import crash_mech
    V = core.Verdict(PROPERTY, tier, seed)
    for variant, cases in plan(tier, seed).items():
        res = core.run_cases('checks.c12_transforms', variant, cases, timeout_case=120)
        for c, rr in zip(cases, res):
            V.absorb(c, rr, crash_mech)
    inc = []
    for k in ('roundtrips', 'forward_vs_definition', 'variant_agreements', 'integrator_roundtrips', 'canary_members_checked'):
        if V.counters.get(k, 0) == 0:
            inc.append('monitor counter %s is zero' % k)
    return V.finish(
        rule="random particle arrays (N 1..64, N_active 1..N, masses incl. 0 and ratios to 1e-12, scales 1e-2..1e3) x 4 coordinate systems x variants (posvel/pos/acc/posvelacc), "
             "plus the integrators' own from/to-inertial pairs; distinct = (system, N class, all-active|split, mass mode, integrator path, testparticle type, build)",
        assumptions=["long-double textbook definitions of the four coordinate systems", "tolerance = K eps N scale (M_active/m_0)"], floor=30, inconclusive_if=inc)


def replay(path):
    return 1
