import sys, os, glob, importlib, argparse
VERIF = os.path.dirname(os.path.dirname(os.path.abspath(__file__)))
sys.path.insert(0, VERIF)
sys.path.insert(1, os.path.join(VERIF, '.deps'))
os.chdir(VERIF)


def main():
    ap = argparse.ArgumentParser()
    ap.add_argument('prop')
    ap.add_argument('--tier', default=os.environ.get('VERIF_TIER', 'quick'), choices=['quick', 'thorough'])
    ap.add_argument('--seed', type=int, default=int(os.environ.get('VERIF_SEED', '0')))
    ap.add_argument('--replay', default=None)
    a = ap.parse_args()
    from vf import build
    build.ensure_deps()
    mods = glob.glob(os.path.join(VERIF, 'checks', a.prop.lower() + '_*.py'))
    if len(mods) != 1:
        print("no unique check module for", a.prop)
        sys.exit(3)
    mod = importlib.import_module('checks.' + os.path.basename(mods[0])[:-3])
    if a.replay:
        # A replay file names the run that produced it (property, tier, seed); all generators are seeded, so re-running that run
        # against the current tree re-creates every witness case.  Evidence and replay files of the re-run go to a scratch directory.
        import json, tempfile, shutil
        with open(a.replay) as f:
            rec = json.load(f)
        want = sorted(set(v['mech'] for v in rec.get('violations', [])))
        td = tempfile.mkdtemp(prefix='verif-replay-')
        os.environ['VERIF_EVIDENCE_DIR'] = td
        os.environ['VERIF_REPLAY_DIR'] = td
        rc = mod.main(rec['tier'], int(rec['seed']))
        got = []
        rp = os.path.join(td, os.path.basename(a.replay))
        if os.path.exists(rp):
            with open(rp) as f:
                got = sorted(set(v['mech'] for v in json.load(f).get('violations', [])))
        shutil.rmtree(td, ignore_errors=True)
        print("REPLAY property=%s tier=%s seed=%s: recorded mechanisms %r; on the current tree: %r" % (rec['property'], rec['tier'], rec['seed'], want, got))
        sys.exit(rc)
    sys.exit(mod.main(a.tier, a.seed))


if __name__ == '__main__':
    main()
