import sys, os, glob, importlib, argparse
VERIF = os.path.dirname(os.path.dirname(os.path.abspath(__file__)))
sys.path.insert(0, VERIF)
sys.path.insert(1, os.path.join(VERIF, '.deps'))
os.chdir(VERIF)


def main():
    ap = argparse.ArgumentParser()
    ap.add_argument('prop')
    ap.add_argument('--tier', default=os.environ.get('VERIF_TIER', 'quick'), choices=['quick', 'thorough'])
    ap.add_argument('--seed', type=int, default=int(os.environ.get('VERIF_SEED', '0')))
    ap.add_argument('--replay', default=None)
    a = ap.parse_args()
    from vf import build
    build.ensure_deps()
    mods = glob.glob(os.path.join(VERIF, 'checks', a.prop.lower() + '_*.py'))
    if len(mods) != 1:
        print("no unique check module for", a.prop)
        sys.exit(3)
    mod = importlib.import_module('checks.' + os.path.basename(mods[0])[:-3])
    if a.replay:
        sys.exit(mod.replay(a.replay))
    sys.exit(mod.main(a.tier, a.seed))


if __name__ == '__main__':
    main()
