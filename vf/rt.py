"""Worker-side helpers: used inside processes that have the working tree's rebound importable.

sabin: an independent parser of the Simulationarchive byte format.  It uses only the on-disk format
(64-byte header, (uint32 type, pad, uint64 size) field headers, END=9999, 12-byte trailer) and the field table
read from the *library* (reb_binary_field_descriptor_list: id, dtype, name, element size).  It yields a
canonical, pointer-masked dictionary per snapshot: "state equality" in the checks means equality of these.
"""
import ctypes, struct, hashlib, os, sys
from ctypes import c_char_p, c_size_t, byref, string_at, c_uint32, c_int, c_char, c_uint64, Structure, POINTER

import rebound
from rebound import clibrebound as clib

PARTICLE_SIZE = 128          # x..az (9), m, r, last_collision (12 doubles = 96) ; c @96 ; hash @104 ; ap @112 ; sim @120
PARTICLE_PTR_MASK = [(96, 104), (112, 128)]
VARCFG_SIZE = 40             # sim @0 (8) ; 5 ints @8..28 ; pad ; lrescale @32
WALLTIME_FIELDS = ('walltime', 'walltime_last_steps')
END_TYPE = 9999
HEADER_TYPE = 1329743186


class _FD(Structure):
    _fields_ = [("type", c_uint32), ("dtype", c_int), ("name", c_char * 1024), ("offset", c_size_t),
                ("offset_N", c_size_t), ("element_size", c_size_t)]


_fields_cache = None


def field_table():
    """{id: (dtype, name, element_size, offset, offset_N)} as exported by the loaded library."""
    global _fields_cache
    if _fields_cache is None:
        arr = (_FD * 400).in_dll(clib, "reb_binary_field_descriptor_list")
        t = {}
        for fd in arr:
            t[fd.type] = (fd.dtype, fd.name.decode(), fd.element_size, fd.offset, fd.offset_N)
            if fd.dtype == 13:
                break
        _fields_cache = t
    return _fields_cache


def save_bytes(sim):
    buf = c_char_p()
    size = c_size_t()
    clib.reb_simulation_save_to_stream(byref(sim), byref(buf), byref(size))
    s = bytes(string_at(buf, size=size.value))
    clib.reb_simulation_output_free_stream(buf)
    return s


def mask_particles(b):
    b = bytearray(b)
    n = len(b) // PARTICLE_SIZE
    for i in range(n):
        for (lo, hi) in PARTICLE_PTR_MASK:
            b[i * PARTICLE_SIZE + lo:i * PARTICLE_SIZE + hi] = b'\0' * (hi - lo)
        # bytes 108..112 are padding after the 32-bit hash
        b[i * PARTICLE_SIZE + 108:i * PARTICLE_SIZE + 112] = b'\0\0\0\0'
    return bytes(b)


def mask_varcfg(b):
    b = bytearray(b)
    n = len(b) // VARCFG_SIZE
    for i in range(n):
        b[i * VARCFG_SIZE:i * VARCFG_SIZE + 8] = b'\0' * 8
        b[i * VARCFG_SIZE + 28:i * VARCFG_SIZE + 32] = b'\0' * 4
    return bytes(b)


class ParseError(Exception):
    pass


def parse_blob(buf, pos, end=None):
    """Parse fields from pos until END. Returns (dict name->bytes (raw), pos_after_END)."""
    if end is None:
        end = len(buf)
    ft = field_table()
    out = {}
    while True:
        if pos + 16 > end:
            raise ParseError("truncated field header at %d" % pos)
        typ, = struct.unpack_from('<I', buf, pos)
        size, = struct.unpack_from('<Q', buf, pos + 8)
        pos += 16
        if typ == END_TYPE:
            return out, pos
        if pos + size > end:
            raise ParseError("field %d payload (%d bytes) overruns buffer at %d" % (typ, size, pos))
        name = ft[typ][1] if typ in ft else "unknown:%d" % typ
        out[name] = bytes(buf[pos:pos + size])
        pos += size


def mask_pjh(b):
    """p_jh entries are scratch particles: only x..vz (0..48) and m (72..80) carry state; ax..az, r, last_collision, hash
    are never written by the coordinate transformations (uninitialised realloc memory)."""
    b = bytearray(b)
    n = len(b) // PARTICLE_SIZE
    for i in range(n):
        o = i * PARTICLE_SIZE
        b[o + 48:o + 72] = b'\0' * 24
        b[o + 80:o + 128] = b'\0' * 48
    return bytes(b)


def canon(fields, drop_walltime=True):
    """Pointer-masked canonical form of a field dict."""
    c = {}
    for k, v in fields.items():
        if drop_walltime and k in WALLTIME_FIELDS:
            continue
        if k in ('ri_whfast.p_jh', 'ri_whfast512.pjh0'):
            v = mask_pjh(v)
        elif k in ('particles',):
            v = mask_particles(v)
        elif k == 'var_config':
            v = mask_varcfg(v)
        c[k] = v
    return c


def sabin(buf, drop_walltime=True):
    """Canonical dict of a single full snapshot byte string (as from save_bytes)."""
    if len(buf) < 64:
        raise ParseError("shorter than header")
    fields, pos = parse_blob(buf, 64)
    return canon(fields, drop_walltime)


def sabin_sim(sim, drop_walltime=True):
    return sabin(save_bytes(sim), drop_walltime)


def digest(canon_dict):
    h = hashlib.sha256()
    for k in sorted(canon_dict):
        h.update(k.encode())
        h.update(b'\0')
        h.update(struct.pack('<Q', len(canon_dict[k])))
        h.update(canon_dict[k])
    return h.hexdigest()


def diff_keys(a, b):
    ks = []
    for k in sorted(set(a) | set(b)):
        if a.get(k) != b.get(k):
            ks.append(k)
    return ks


def load_bytes(b):
    """Simulation from snapshot bytes through the real reader (Python path)."""
    return rebound.Simulation(b)


def parse_archive(buf):
    """Independent parse of a whole archive file: returns list of dicts (blob 0 full, others deltas overlaid on
    blob 0), following trailers. Raises ParseError on malformed content."""
    snaps = []
    f0, pos = parse_blob(buf, 64)
    base = dict(f0)
    snaps.append(dict(base))
    # trailer
    while True:
        if pos + 12 > len(buf):
            break
        idx, oprev, onext = struct.unpack_from('<iii', buf, pos)
        pos += 12
        if pos >= len(buf):
            break
        d, pos = parse_blob(buf, pos)
        s = dict(base)
        for k, v in d.items():
            if len(v) == 0:
                s.pop(k, None)      # a zero-size field in a delta means: no longer present
            else:
                s[k] = v
        snaps.append(s)
    return snaps


def particle_tuple(p):
    return (p.x, p.y, p.z, p.vx, p.vy, p.vz, p.m, p.r, p.hash.value if hasattr(p.hash, 'value') else int(p.hash))


def state_hash(sim):
    """SHA-256 over (t, dt, and x..vz,m,r,hash of every particle) - used for per-boundary trajectory logs."""
    h = hashlib.sha256()
    h.update(struct.pack('<dd', sim.t, sim.dt))
    ps = sim.particles
    for i in range(sim.N):
        p = ps[i]
        h.update(struct.pack('<8dI', p.x, p.y, p.z, p.vx, p.vy, p.vz, p.m, p.r, p.hash.value))
    return h.hexdigest()[:24]


def state_hash_unordered(sim):
    """like state_hash but insensitive to the order of the particle array (tree modules re-order particles)."""
    h = hashlib.sha256()
    h.update(struct.pack('<dd', sim.t, sim.dt))
    ps = sim.particles
    recs = sorted(struct.pack('<8dI', p.x, p.y, p.z, p.vx, p.vy, p.vz, p.m, p.r, p.hash.value) for p in (ps[i] for i in range(sim.N)))
    for rec in recs:
        h.update(rec)
    return h.hexdigest()[:24]


def ulp_diff(a, b):
    """number of representable doubles between a and b (same sign assumed, else large)"""
    ia = struct.unpack('<q', struct.pack('<d', a))[0]
    ib = struct.unpack('<q', struct.pack('<d', b))[0]
    if ia < 0:
        ia = -(ia & 0x7fffffffffffffff)
    if ib < 0:
        ib = -(ib & 0x7fffffffffffffff)
    return abs(ia - ib)


def dbits(x):
    return struct.pack('<d', x).hex()


def coll_events(sim):
    """Signature that changes whenever a step resolved at least one collision: N (merges), collisions_log_n (hard spheres) and
    rand_seed (the resolution order is drawn with rand_r iff the search found a collision)."""
    return (int(sim.N), int(sim.collisions_log_n), int(sim.rand_seed))


def lockstep_tree_collisions(x, y, k, shash):
    """Advance x and y k single steps. Returns (first diverging step or None, explained) where explained tells whether the
    divergence can come from the order dependence of collision resolution (known finding of C05/C17): both runs must have registered
    collision events in exactly the same steps up to and including the diverging one, and at least once."""
    ex, ey = coll_events(x), coll_events(y)
    seen = False
    for i in range(k):
        x.steps(1)
        y.steps(1)
        nx, ny = coll_events(x), coll_events(y)
        cx, cy = nx != ex, ny != ey
        ex, ey = nx, ny
        if cx != cy:
            return i + 1, False
        seen = seen or cx
        if shash(x) != shash(y):
            return i + 1, seen
    return None, True
