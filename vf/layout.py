"""DWARF ground truth for struct layouts and enumerators, through gdb's Python API on a -g build."""
import json, os, subprocess, tempfile
from . import build as B

_GDB_SCRIPT = r'''
import gdb, json
C = {gdb.TYPE_CODE_PTR: 'ptr', gdb.TYPE_CODE_ARRAY: 'array', gdb.TYPE_CODE_STRUCT: 'struct', gdb.TYPE_CODE_UNION: 'union',
     gdb.TYPE_CODE_ENUM: 'enum', gdb.TYPE_CODE_FUNC: 'func', gdb.TYPE_CODE_INT: 'int', gdb.TYPE_CODE_FLT: 'float',
     gdb.TYPE_CODE_CHAR: 'int', gdb.TYPE_CODE_BOOL: 'int', gdb.TYPE_CODE_VOID: 'void'}

def desc(t):
    t = t.strip_typedefs()
    t = t.unqualified()
    code = C.get(t.code, 'other%d' % t.code)
    d = dict(kind=code, size=t.sizeof)
    if code == 'int':
        d['signed'] = bool(t.is_signed) if hasattr(t, 'is_signed') else (not str(t).startswith('unsigned') and str(t) not in ('char',))
        d['name'] = str(t)
    elif code == 'float':
        d['name'] = str(t)
    elif code == 'ptr':
        tt = t.target().strip_typedefs().unqualified()
        if tt.code == gdb.TYPE_CODE_FUNC:
            d['kind'] = 'funcptr'
        else:
            d['target'] = str(tt)
            d['target_kind'] = C.get(tt.code, 'other')
    elif code == 'array':
        lo, hi = t.range()
        d['count'] = hi - lo + 1
        d['elem'] = desc(t.target())
    elif code in ('struct', 'union'):
        d['name'] = str(t)
        d['fields'] = fields(t)
    elif code == 'enum':
        d['enumerators'] = dict((f.name, int(f.enumval)) for f in t.fields())
    return d

def fields(t):
    out = []
    for f in t.fields():
        if f.name is None:
            continue
        fd = desc(f.type)
        fd['fname'] = f.name
        fd['offset'] = f.bitpos // 8
        if f.bitsize:
            fd['bitsize'] = f.bitsize
        out.append(fd)
    return out

res = {}
for name in NAMES:
    try:
        t = gdb.lookup_type('struct ' + name)
        res[name] = dict(size=t.sizeof, fields=fields(t))
    except Exception as e:
        res[name] = dict(error=str(e))
enums = {}
for en in ENUMS:
    try:
        t = gdb.lookup_type('enum ' + en)
        enums[en] = dict((f.name, int(f.enumval)) for f in t.fields())
    except Exception as e:
        enums[en] = dict(error=str(e))
syms = {}
for s in SYMS:
    try:
        v = gdb.parse_and_eval('&' + s)
        syms[s] = int(v)
    except Exception as e:
        syms[s] = None
json.dump(dict(structs=res, enums=enums, syms=syms), open(OUT, 'w'))
'''


def dwarf_layout(variant, struct_names, enum_names=(), syms=()):
    d = B.build(variant)
    so = os.path.join(d, 'librebound' + B.EXT_SUFFIX)
    with tempfile.TemporaryDirectory() as td:
        out = os.path.join(td, 'out.json')
        script = os.path.join(td, 's.py')
        with open(script, 'w') as f:
            f.write("NAMES=%r\nENUMS=%r\nSYMS=%r\nOUT=%r\n" % (list(struct_names), list(enum_names), list(syms), out))
            f.write(_GDB_SCRIPT)
        p = subprocess.run(['gdb', '-batch', '-nx', '-x', script, so], capture_output=True, text=True, timeout=300)
        if not os.path.exists(out):
            raise RuntimeError("gdb layout extraction failed: %s %s" % (p.stdout[-2000:], p.stderr[-2000:]))
        with open(out) as f:
            return json.load(f)
