"""Build library variants from the repository's *current working tree*.

Every variant is compiled from $VERIF_REPO/src/*.c (default /repo) into
/verif/.build/<variant>-<hash>/ where <hash> covers the contents of src/*.[ch], the flag set
and the repo path.  The directory gets a symlink `rebound -> <repo>/rebound` beside the fresh
librebound*.so, so PYTHONPATH=<dir> makes the working tree's Python layer load the working
tree's C code.
"""
import hashlib, os, subprocess, sys, glob, shutil, fcntl, time
from concurrent.futures import ThreadPoolExecutor

VERIF = os.path.dirname(os.path.dirname(os.path.abspath(__file__)))
REPO = os.environ.get("VERIF_REPO", "/repo")
BUILD_ROOT = os.path.join(VERIF, ".build")
EXT_SUFFIX = ".cpython-312-x86_64-linux-gnu.so"
PY = "/venv/bin/python"

SOURCES = ['rebound.c', 'integrator_ias15.c', 'integrator_whfast.c', 'integrator_whfast512.c',
           'integrator_saba.c', 'integrator_mercurius.c', 'integrator_trace.c', 'integrator_eos.c',
           'integrator_leapfrog.c', 'integrator_bs.c', 'integrator_janus.c', 'integrator_sei.c',
           'integrator.c', 'gravity.c', 'server.c', 'boundary.c', 'display.c', 'collision.c', 'tools.c',
           'fmemopen.c', 'rotations.c', 'derivatives.c', 'tree.c', 'particle.c', 'binarydiff.c', 'output.c',
           'input.c', 'simulationarchive.c', 'transformations.c']

COMMON = ['-std=c99', '-Wno-unknown-pragmas', '-DGITHASH=verif', '-DLIBREBOUND', '-D_GNU_SOURCE',
          '-DSERVER', '-fPIC', '-w']
GUARD = ['-DREBOUND_VERIF=1']   # hooks guard (no source hooks exist at present; harmless)

VARIANTS = {
    # exactly setup.py's flags: the shipped configuration
    'rel':    dict(cc='gcc', cflags=['-fstrict-aliasing', '-O3'], ldflags=[]),
    'avx512': dict(cc='gcc', cflags=['-fstrict-aliasing', '-O3', '-march=native', '-DAVX512'], ldflags=[]),
    'asan':   dict(cc='clang', cflags=['-O1', '-g', '-fno-omit-frame-pointer', '-fsanitize=address,undefined',
                                       '-fno-sanitize=alignment,nonnull-attribute', '-fno-sanitize-recover=undefined'],
                   ldflags=['-fsanitize=address,undefined', '-shared-libasan']),
    'tsan':   dict(cc='clang', cflags=['-O1', '-g', '-fno-omit-frame-pointer', '-fsanitize=thread'],
                   ldflags=['-fsanitize=thread']),
    'dbg':    dict(cc='gcc', cflags=['-O0', '-g'], ldflags=[]),
    'dbg512': dict(cc='gcc', cflags=['-O0', '-g', '-march=native', '-DAVX512'], ldflags=[]),
    'cov':    dict(cc='gcc', cflags=['-O0', '-g', '--coverage'], ldflags=['--coverage']),
    'cov512': dict(cc='gcc', cflags=['-O0', '-g', '--coverage', '-march=native', '-DAVX512'], ldflags=['--coverage']),
}
# tools/reach.py: VERIF_VARIANT_MAP="rel=cov,asan=cov,avx512=cov512" re-routes a check's workload onto the gcov build
VARIANT_MAP = dict(kv.split('=') for kv in os.environ.get('VERIF_VARIANT_MAP', '').split(',') if '=' in kv)
PRUNE_AGE = 4 * 3600   # seconds; a running check re-touches its directory on every build() call


def _src_hash(variant):
    h = hashlib.sha256()
    h.update(REPO.encode())
    h.update(repr(VARIANTS[variant]).encode())
    h.update(repr(COMMON + GUARD).encode())
    for f in sorted(glob.glob(os.path.join(REPO, 'src', '*.[ch]'))):
        h.update(os.path.basename(f).encode())
        with open(f, 'rb') as fh:
            h.update(fh.read())
    return h.hexdigest()[:16]


def _run(cmd, cwd=None):
    p = subprocess.run(cmd, cwd=cwd, capture_output=True, text=True)
    if p.returncode != 0:
        raise RuntimeError("build command failed: %s\n%s\n%s" % (' '.join(cmd), p.stdout[-4000:], p.stderr[-4000:]))
    return p


def build(variant, prune=True):
    """Return the build directory for `variant`, compiling if needed."""
    variant = VARIANT_MAP.get(variant, variant)
    v = VARIANTS[variant]
    hsh = _src_hash(variant)
    d = os.path.join(BUILD_ROOT, "%s-%s" % (variant, hsh))
    os.makedirs(BUILD_ROOT, exist_ok=True)
    lockf = open(os.path.join(BUILD_ROOT, ".lock-%s" % variant), 'w')
    fcntl.flock(lockf, fcntl.LOCK_EX)
    try:
        so = os.path.join(d, "librebound" + EXT_SUFFIX)
        if not os.path.exists(os.path.join(d, ".done")):
            if os.path.isdir(d):
                shutil.rmtree(d)
            os.makedirs(d)
            srcdir = os.path.join(REPO, 'src')

            def cc(s):
                o = os.path.join(d, s[:-2] + '.o')
                _run([v['cc']] + COMMON + GUARD + v['cflags'] + ['-I' + srcdir, '-c', os.path.join(srcdir, s), '-o', o])
                return o
            with ThreadPoolExecutor(16) as ex:
                objs = list(ex.map(cc, SOURCES))
            _run([v['cc'], '-shared'] + v['ldflags'] + objs + ['-lm', '-lrt', '-lpthread', '-o', so])
            _run(['ar', 'rcs', os.path.join(d, 'librebound.a')] + objs)
            os.symlink(os.path.join(REPO, 'rebound'), os.path.join(d, 'rebound'))
            # the built-in server shells out to curl unless rebound.html exists in cwd; provide a dummy
            with open(os.path.join(d, 'rebound.html'), 'w') as f:
                f.write("<html>verif dummy</html>\n")
            open(os.path.join(d, ".done"), 'w').close()
        if prune:
            for other in glob.glob(os.path.join(BUILD_ROOT, variant + "-*")):
                if other != d and time.time() - os.path.getmtime(other) > PRUNE_AGE:
                    shutil.rmtree(other, ignore_errors=True)
        os.utime(d)
    finally:
        fcntl.flock(lockf, fcntl.LOCK_UN)
        lockf.close()
    return d


def asan_runtime():
    return subprocess.check_output(['clang', '-print-file-name=libclang_rt.asan-x86_64.so'], text=True).strip()


def env_for(variant, builddir, extra=None):
    """Environment for a worker that should import the working tree's rebound against `variant`."""
    variant = VARIANT_MAP.get(variant, variant)
    e = dict(os.environ)
    deps = os.path.join(VERIF, '.deps')
    e['PYTHONPATH'] = os.pathsep.join([builddir, VERIF, deps])
    e['PYTHONDONTWRITEBYTECODE'] = '1'
    e['PYTHONHASHSEED'] = '0'
    e['REBOUND_VERIF'] = '1'
    e['VERIF_BUILD_DIR'] = builddir
    e['VERIF_VARIANT'] = variant
    e.setdefault('OMP_NUM_THREADS', '1')
    # glibc fills every block handed out by malloc/realloc with 0x5A and every freed block with 0xA5: a read of heap memory the library
    # never wrote, or of a freed block, then yields 1.4e127 / NaN-like garbage instead of whatever happened to be there (usually zeros),
    # so the numerical oracles of every check see it.  (The sanitizer builds bring their own allocator and ignore the variable.)
    e.setdefault('MALLOC_PERTURB_', '165')
    e['OPENBLAS_NUM_THREADS'] = '1'
    if variant == 'asan':
        e['LD_PRELOAD'] = asan_runtime()
        e['ASAN_OPTIONS'] = 'abort_on_error=1:detect_leaks=0:halt_on_error=1:allocator_may_return_null=1:handle_segv=1'
        e['UBSAN_OPTIONS'] = 'print_stacktrace=1:halt_on_error=1'
    if extra:
        e.update(extra)
    return e


def cdriver(name, variant, sources, extra_flags=(), libs=()):
    """Compile a C driver from /verif/cdrv against the variant's static library. Returns the binary path."""
    variant = VARIANT_MAP.get(variant, variant)
    d = build(variant)
    v = VARIANTS[variant]
    h = hashlib.sha256()
    for s in sources:
        with open(os.path.join(VERIF, 'cdrv', s), 'rb') as fh:
            h.update(fh.read())
    h.update(repr(extra_flags).encode())
    out = os.path.join(d, "%s-%s" % (name, h.hexdigest()[:10]))
    if not os.path.exists(out):
        tmp = out + ".tmp%d" % os.getpid()
        _run([v['cc']] + COMMON + GUARD + v['cflags'] + list(extra_flags) + ['-I' + os.path.join(REPO, 'src')] +
             [os.path.join(VERIF, 'cdrv', s) for s in sources] +
             [os.path.join(d, 'librebound.a')] + [f for f in v['ldflags'] if f != '-shared-libasan'] + ['-lm', '-lrt', '-lpthread'] + list(libs) + ['-o', tmp])
        os.replace(tmp, out)
    return out


def shim(name, variant='rel'):
    """Compile an LD_PRELOAD shim from cdrv/<name>.c (no repo headers needed). Returns the .so path."""
    d = build(variant)
    src = os.path.join(VERIF, 'cdrv', name + '.c')
    with open(src, 'rb') as fh:
        h = hashlib.sha256(fh.read()).hexdigest()[:10]
    out = os.path.join(d, '%s-%s.so' % (name, h))
    if not os.path.exists(out):
        tmp = out + '.tmp%d' % os.getpid()
        _run(['gcc', '-O1', '-shared', '-fPIC', src, '-ldl', '-o', tmp])
        os.replace(tmp, out)
    return out


def ensure_deps():
    """Install pure-python deps from the offline wheelhouse into /verif/.deps (git-ignored)."""
    deps = os.path.join(VERIF, '.deps')
    if os.path.exists(os.path.join(deps, '.done')):
        return deps
    os.makedirs(deps, exist_ok=True)
    lockf = open(os.path.join(VERIF, '.deps.lock'), 'w')
    fcntl.flock(lockf, fcntl.LOCK_EX)
    try:
        if not os.path.exists(os.path.join(deps, '.done')):
            _run([PY, '-m', 'pip', 'install', '-q', '--no-index', '--find-links', '/opt/veriftools/wheels',
                  '--target', deps, 'mpmath', 'icontract', 'jsonschema'])
            open(os.path.join(deps, '.done'), 'w').close()
    finally:
        fcntl.flock(lockf, fcntl.LOCK_UN)
        lockf.close()
    return deps


if __name__ == '__main__':
    ensure_deps()
    for v in sys.argv[1:] or ['rel']:
        t = time.time()
        print(v, build(v), "%.1fs" % (time.time() - t))
