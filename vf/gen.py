"""Seeded generators of simulation *specs* (JSON) and a builder that turns a spec into a real simulation.

A spec is the replayable description of a case: system, integrator, option tuple, modules, variational
configuration.  Workers call build_sim(spec); parents call random_spec(rng, ...).
"""
import math, random

INTEGRATORS = ['ias15', 'whfast', 'saba', 'eos', 'leapfrog', 'mercurius', 'trace', 'bs', 'janus', 'sei', 'whfast512']
SABA_TYPES = ["1", "2", "3", "4", "cm1", "cm2", "cm3", "cm4", "cl1", "cl2", "cl3", "cl4", "10,4", "8,6,4", "10,6,4", "h8,4,4", "h8,6,4", "h10,6,4"]
EOS_TYPES = ["lf", "lf4", "lf6", "lf8", "lf4_2", "lf8_6_4", "plf7_6_4", "pmlf4", "pmlf6"]
WH_COORDS = ["jacobi", "democraticheliocentric", "whds", "barycentric"]
WH_KERNELS = ["default", "modifiedkick", "composition", "lazy"]
WH_CORRECTORS = [0, 3, 5, 7, 11, 17]


# ------------------------------------------------------------------ systems
def planetary_system(r, n=None, mass_lo=1e-7, mass_hi=1e-3, emax=0.15, incmax=0.1, hill_sep=9.0, mstar=1.0):
    """Well separated hierarchical system: star + n planets, mutual Hill separation >= hill_sep."""
    n = n if n is not None else r.randint(1, 5)
    a = 1.0 * 10 ** r.uniform(-0.3, 0.3)
    planets = []
    for i in range(n):
        m = 10 ** r.uniform(math.log10(mass_lo), math.log10(mass_hi))
        e = r.uniform(0, emax)
        if i > 0:
            mprev = planets[-1]['m']
            rh = ((m + mprev) / (3 * mstar)) ** (1. / 3.)
            # separation in units of mutual hill radii, allowing for eccentricities
            fac = (1 + hill_sep * rh / 2 * 1.0) / (1 - hill_sep * rh / 2 * 1.0)
            a = planets[-1]['a'] * (1 + planets[-1]['e']) / (1 - e) * max(fac, 1.25) * r.uniform(1.0, 1.3)
        planets.append(dict(m=m, a=a, e=e, inc=r.uniform(0, incmax), Omega=r.uniform(0, 2 * math.pi),
                            omega=r.uniform(0, 2 * math.pi), f=r.uniform(0, 2 * math.pi)))
    return dict(kind='planets', mstar=mstar, planets=planets)


def cluster_system(r, n=None, L=20.0):
    """Particles with finite radii in a box, moving so that collisions happen within tens of steps."""
    n = n or r.randint(8, 40)
    ps = []
    tries = 0
    while len(ps) < n and tries < 10000:
        tries += 1
        rad = r.uniform(0.25, 0.9) if r.random() < 0.9 else r.uniform(0.02, 0.1)
        x, y, z = (r.uniform(-L / 2 + 1, L / 2 - 1) for _ in range(3))
        if any((x - q[1]) ** 2 + (y - q[2]) ** 2 + (z - q[3]) ** 2 < (rad + q[7] + 0.05) ** 2 for q in ps):
            continue
        ps.append([10 ** r.uniform(-4, -2), x, y, z, r.uniform(-1, 1), r.uniform(-1, 1), r.uniform(-1, 1), rad])
    return dict(kind='cartesian', particles=ps, L=L)


def random_module_spec(r):
    """Spec exercising collision / boundary / tree modules (non-planetary)."""
    L = 20.0
    integ = r.choice(['leapfrog', 'leapfrog', 'leapfrog', 'whfast', 'mercurius', 'trace'])
    spec = dict(integrator=integ, rand_seed=r.randrange(1, 2 ** 31), dt=0.05)
    grav = r.choice(['none', 'basic', 'tree', 'compensated'])
    coll = r.choice(['direct', 'tree', 'line', 'linetree'])
    bound = r.choice(['none', 'open', 'periodic'])
    if integ in ('whfast', 'mercurius', 'trace'):
        # needs a dominant central body: a heavy particle at the centre, others orbiting slowly
        grav = 'basic'
        coll = 'direct' if integ != 'trace' else r.choice(['direct', 'line'])
        bound = 'none'
    spec['system'] = cluster_system(r, L=L)
    if integ in ('whfast', 'mercurius', 'trace'):
        spec['system']['particles'].insert(0, [1.0, 0.0, 0.0, 0.0, 0.0, 0.0, 0.0, 0.1])
        ps = spec['system']['particles']
        ps[1:] = [p for p in ps[1:] if p[1] ** 2 + p[2] ** 2 + p[3] ** 2 > 4.0]
        for p in ps[1:]:
            d = math.sqrt(p[1] ** 2 + p[2] ** 2 + p[3] ** 2)
            v = math.sqrt(1.0 / d)
            # roughly circular, in the x-y plane direction perpendicular to position
            p[4], p[5], p[6] = -p[2] / d * v, p[1] / d * v, 0.05 * p[6]
        spec['dt'] = 0.02
    if (grav == 'tree' or 'tree' in coll) and bound == 'none':
        bound = r.choice(['open', 'periodic'])      # a tree needs particles to stay inside the box
    spec['gravity'] = grav
    spec['collision'] = coll
    spec['boundary'] = bound
    spec['collision_resolve'] = r.choice(['merge', 'hardsphere'])
    nroot = r.choice([(1, 1, 1), (2, 1, 1), (2, 2, 1)])
    spec['box'] = [L / max(1, 1), nroot[0], nroot[1], nroot[2]] if (grav == 'tree' or 'tree' in coll or bound != 'none') else None
    if spec['box']:
        spec['box'][0] = L          # root box size; total box = L*nroot, particles live in the central L^3 -> inside
        if nroot != (1, 1, 1):
            # keep all particles inside the (larger) box: fine, box only grows
            pass
    if bound == 'periodic':
        spec['sim_opts'] = {'N_ghost_x': r.choice([0, 1]), 'N_ghost_y': r.choice([0, 1]), 'N_ghost_z': r.choice([0, 1])}
    spec['opts'] = {}
    if r.random() < 0.5 and not (grav == 'tree' or 'tree' in coll):
        spec.setdefault('sim_opts', {})['collision_resolve_keep_sorted'] = 1
    if grav == 'tree':
        spec.setdefault('sim_opts', {})['opening_angle2'] = r.choice([0.25, 0.5, 1.0])
    spec.setdefault('sim_opts', {})['softening'] = 0.05
    return spec


def add_system(sim, sysd):
    k = sysd['kind']
    if k == 'planets':
        sim.add(m=sysd['mstar'], r=sysd.get('rstar', 0.0))
        for p in sysd['planets']:
            sim.add(m=p['m'], a=p['a'], e=p['e'], inc=p['inc'], Omega=p['Omega'], omega=p['omega'], f=p['f'], r=p.get('r', 0.0),
                    primary=sim.particles[0])
        if sysd.get('com', True):
            sim.move_to_com()
        for tp in sysd.get('testparticles', []):
            sim.add(m=tp.get('m', 0.0), a=tp['a'], e=tp['e'], inc=tp['inc'], Omega=tp['Omega'], omega=tp['omega'], f=tp['f'], primary=sim.particles[0])
    elif k == 'cartesian':
        for p in sysd['particles']:
            sim.add(m=p[0], x=p[1], y=p[2], z=p[3], vx=p[4], vy=p[5], vz=p[6], r=p[7] if len(p) > 7 else 0.0)
    else:
        raise ValueError(k)


def inner_period(sysd, G=1.0):
    if sysd['kind'] == 'planets':
        a = min(p['a'] for p in sysd['planets'])
        return 2 * math.pi * math.sqrt(a ** 3 / (G * sysd['mstar']))
    return 1.0


# ------------------------------------------------------------------ option lattices
def random_options(r, integ, var=False, full=True, tscale=1.0):
    """Random documented option tuple for an integrator, as {attribute path: value}."""
    o = {}
    if integ == 'whfast':
        coords = 'jacobi' if var else r.choice(WH_COORDS)
        o['ri_whfast.coordinates'] = coords
        if coords == 'jacobi' and not var:
            o['ri_whfast.kernel'] = r.choice(WH_KERNELS)
        if coords in ('jacobi', 'barycentric') and o.get('ri_whfast.kernel', 'default') in ('default',):
            o['ri_whfast.corrector'] = r.choice(WH_CORRECTORS)
        elif coords == 'jacobi':
            o['ri_whfast.corrector'] = r.choice(WH_CORRECTORS)
        if coords == 'jacobi' and r.random() < 0.3:
            o['ri_whfast.corrector2'] = 1
        if r.random() < 0.6:
            o['ri_whfast.safe_mode'] = 0
            if r.random() < 0.4:
                o['ri_whfast.keep_unsynchronized'] = 1
    elif integ == 'saba':
        o['ri_saba.type'] = r.choice(SABA_TYPES)
        if r.random() < 0.6:
            o['ri_saba.safe_mode'] = 0
            if r.random() < 0.4:
                o['ri_saba.keep_unsynchronized'] = 1
    elif integ == 'eos':
        o['ri_eos.phi0'] = r.choice(EOS_TYPES)
        o['ri_eos.phi1'] = r.choice(EOS_TYPES)
        o['ri_eos.n'] = r.choice([1, 2, 3, 5])
        if r.random() < 0.5:
            o['ri_eos.safe_mode'] = 0
    elif integ == 'ias15':
        o['ri_ias15.adaptive_mode'] = r.choice([0, 1, 2, 3])
        o['ri_ias15.epsilon'] = r.choice([1e-9, 1e-8, 1e-7])
        if r.random() < 0.3:
            o['ri_ias15.min_dt'] = 1e-4 * tscale
    elif integ == 'mercurius':
        o['ri_mercurius.r_crit_hill'] = r.choice([3.0, 2.0, 4.5])
        o['ri_mercurius.L'] = r.choice(['mercury', 'infinity', 'C4', 'C5'])
        if r.random() < 0.5:
            o['ri_mercurius.safe_mode'] = 0
    elif integ == 'trace':
        o['ri_trace.r_crit_hill'] = r.choice([3.0, 2.0, 4.0])
        o['ri_trace.peri_mode'] = r.choice(['FULL_BS', 'PARTIAL_BS', 'FULL_IAS15'])
        o['ri_trace.peri_crit_eta'] = r.choice([1.0, 0.5, 2.0])
        if r.random() < 0.25:
            o['ri_trace.S_peri'] = 'none'          # documented alternative: no pericentre switching
    elif integ == 'bs':
        o['ri_bs.eps_rel'] = r.choice([1e-8, 1e-10, 1e-6])
        o['ri_bs.eps_abs'] = r.choice([1e-8, 1e-10, 1e-6])
        if r.random() < 0.3:
            o['ri_bs.max_dt'] = 0.5 * tscale
        if r.random() < 0.3:
            o['ri_bs.min_dt'] = 1e-5 * tscale
    elif integ == 'janus':
        o['ri_janus.order'] = r.choice([2, 4, 6, 8, 10])
        o['ri_janus.scale_pos'] = r.choice([1e-16, 2.0 ** -50, 1e-10])
        o['ri_janus.scale_vel'] = r.choice([1e-16, 2.0 ** -50, 1e-10])
    elif integ == 'whfast512':
        o['ri_whfast512.gr_potential'] = r.choice([0, 1])
        if r.random() < 0.5:
            o['ri_whfast512.keep_unsynchronized'] = 1
    return o


def set_path(sim, path, val):
    obj = sim
    parts = path.split('.')
    for q in parts[:-1]:
        obj = getattr(obj, q)
    setattr(obj, parts[-1], val)


def get_path(sim, path):
    obj = sim
    for q in path.split('.'):
        obj = getattr(obj, q)
    return obj


def build_sim(spec):
    import rebound
    sim = rebound.Simulation()
    sim.rand_seed = spec.get('rand_seed', 12345)
    if 'G' in spec:
        sim.G = spec['G']
    if spec.get('box'):
        sim.configure_box(*spec['box'])
    for k in ('gravity', 'collision', 'boundary'):
        if spec.get(k):
            setattr(sim, k, spec[k])
    if spec.get('collision_resolve'):
        sim.collision_resolve = spec['collision_resolve']
    add_system(sim, spec['system'])
    sim.integrator = spec['integrator']
    for path, val in spec.get('opts', {}).items():
        set_path(sim, path, val)
    for path, val in spec.get('sim_opts', {}).items():
        set_path(sim, path, val)
    if 'dt' in spec:
        sim.dt = spec['dt']
    if spec.get('N_active') is not None:
        sim.N_active = spec['N_active']
    if spec.get('testparticle_type') is not None:
        sim.testparticle_type = spec['testparticle_type']
    for v in spec.get('var', []):
        if v['order'] == 1:
            vv = sim.add_variation(order=1, testparticle=v.get('testparticle', -1))
            if 'vary' in v:
                vv.vary(v['index'], v['vary'])
            else:
                vv.particles[v.get('index', 1)].x = 1.0
        else:
            v1 = sim.add_variation(order=1)
            v1.vary(v['index'], v['vary'])
            v2 = sim.add_variation(order=2, first_order=v1)
            v2.vary(v['index'], v['vary'], v['vary'])
    if spec.get('megno'):
        sim.init_megno(seed=spec.get('megno_seed', 7))
    return sim


def random_spec(r, integ=None, allow_var=True, nmax=4, avx512=False):
    integs = [i for i in INTEGRATORS if (avx512 or i != 'whfast512') and i != 'sei']
    integ = integ or r.choice(integs)
    spec = dict(integrator=integ, rand_seed=r.randrange(1, 2 ** 31))
    var = []
    if integ == 'whfast512':
        n = r.randint(1, min(nmax, 8))
        spec['system'] = planetary_system(r, n)
        spec['sim_opts'] = {'exact_finish_time': 0}
    elif integ == 'janus':
        spec['system'] = planetary_system(r, r.randint(1, nmax))
    else:
        spec['system'] = planetary_system(r, r.randint(1, nmax))
        if r.random() < 0.25 and integ not in ('whfast512',):
            # test particles
            sysd = spec['system']
            aout = max(p['a'] for p in sysd['planets']) * 1.6
            sysd['testparticles'] = [dict(a=aout * (1 + 0.4 * k), e=r.uniform(0, 0.1), inc=r.uniform(0, 0.1), Omega=r.uniform(0, 6.28), omega=r.uniform(0, 6.28), f=r.uniform(0, 6.28),
                                          m=0.0) for k in range(r.randint(1, 2))]
            spec['N_active'] = 1 + len(sysd['planets'])
            spec['testparticle_type'] = r.choice([0, 1]) if integ in ('ias15', 'whfast', 'leapfrog', 'bs', 'saba', 'eos') else 0
    if allow_var and integ in ('ias15', 'bs', 'whfast', 'leapfrog') and r.random() < 0.3:
        if integ in ('ias15', 'bs') and r.random() < 0.4 and spec.get('testparticle_type') != 1:
            var.append(dict(order=2, index=1, vary=r.choice(['a', 'e', 'm'])))
        elif r.random() < 0.5 and integ in ('ias15', 'whfast', 'leapfrog'):
            spec['megno'] = True
            spec['megno_seed'] = r.randrange(1, 1000)
        else:
            var.append(dict(order=1, index=1, vary=r.choice(['a', 'e', 'inc', 'm', 'f'])))
    if var:
        spec['var'] = var
    opts = random_options(r, integ, var=bool(var) or bool(spec.get('megno')))
    if integ in ('whfast',) and spec.get('N_active') is not None and spec.get('testparticle_type') == 1 and opts.get('ri_whfast.coordinates') == 'whds':
        opts['ri_whfast.coordinates'] = 'democraticheliocentric'
    spec['opts'] = opts
    P = inner_period(spec['system'])
    spec['dt'] = P / r.choice([17.3, 25.1, 40.7, 61.0])
    if r.random() < 0.2 and integ not in ('whfast512',):
        spec['G'] = r.choice([6.674e-11, 39.476926421373, 0.5])
        spec['dt'] = spec['dt'] / math.sqrt(spec['G'])
        for k in ('ri_ias15.min_dt', 'ri_bs.max_dt', 'ri_bs.min_dt'):      # absolute time scales follow the time unit
            if k in opts:
                opts[k] = opts[k] / math.sqrt(spec['G'])
    spec['tscale'] = 1.0 / math.sqrt(spec.get('G', 1.0))
    return spec
