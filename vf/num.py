"""NaN-safe comparison helpers for oracles.

A deviation that is NaN must FAIL its tolerance test.  Python's `x > tol` is False for NaN and the builtin max() silently drops a
NaN that is not the first element, so an oracle written with them is blind to non-finite output of the code under test.
Check modules do   from vf.num import gt, nmax as max, nmin as min   and write   if gt(deviation, tolerance): violation."""
import builtins, math

_NAN = float('nan')


def gt(a, b):
    """True if a > b, or if either side is NaN."""
    try:
        return not (a <= b)
    except TypeError:
        return a > b


def _isnan(x):
    try:
        return x != x
    except Exception:
        return False


def _scan(args, kw, fn):
    if 'key' in kw:
        return fn(*args, **kw)
    if len(args) == 1:
        try:
            items = list(args[0])
        except TypeError:
            return fn(*args, **kw)
    else:
        items = list(args)
    for x in items:
        if isinstance(x, float) or type(x).__name__ in ('float64', 'longdouble', 'float32', 'float128'):
            if _isnan(x):
                return _NAN
    if not items and 'default' in kw:
        return kw['default']
    return fn(items, **{k: v for k, v in kw.items() if k != 'default'}) if items else fn(items, **kw)


def nmax(*args, **kw):
    return _scan(args, kw, builtins.max)


def nmin(*args, **kw):
    return _scan(args, kw, builtins.min)
