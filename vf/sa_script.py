"""Scripted archive-writing runs used by C07 (fresh run under strace; restart from a crash image)."""
import sys, json, warnings


def build(scn):
    import rebound
    sim = rebound.Simulation()
    sim.rand_seed = 4242
    sim.add(m=1.0)
    for i, (m, a, e, f) in enumerate(scn['planets']):
        sim.add(m=m, a=a, e=e, f=f, inc=0.01 * i)
    sim.move_to_com()
    sim.integrator = scn['integrator']
    for path, val in scn.get('opts', {}).items():
        obj = sim
        parts = path.split('.')
        for q in parts[:-1]:
            obj = getattr(obj, q)
        setattr(obj, parts[-1], val)
    sim.dt = scn['dt']
    return sim


def continue_script(sim, scn, fn, first_j):
    """Carry on the scripted run so that snapshots first_j.. get written."""
    kind = scn['kind']
    if kind == 'manual':
        for j in range(first_j, scn['J']):
            sim.integrate(scn['delta'] * j)
            sim.save_to_file(fn)
    elif kind == 'interval':
        sim.save_to_file(fn, interval=scn['delta'])
        sim.integrate(scn['delta'] * (scn['J'] - 1) + 1e-9 * scn['delta'])
    elif kind == 'step':
        sim.save_to_file(fn, step=scn['step'])
        sim.integrate(scn['dt'] * scn['step'] * (scn['J'] - 1) + 0.5 * scn['dt'])


def run_fresh(scn, fn):
    sim = build(scn)
    continue_script(sim, scn, fn, 0)


def run_restart(scn, fn):
    import rebound
    sa = rebound.Simulationarchive(fn)
    n = sa.nblobs
    sim = sa[n - 1]
    del sa
    continue_script(sim, scn, fn, n)
    return n


if __name__ == '__main__':
    warnings.simplefilter('ignore')
    scn = json.load(open(sys.argv[1]))
    if sys.argv[3] == 'fresh':
        run_fresh(scn, sys.argv[2])
    else:
        run_restart(scn, sys.argv[2])
