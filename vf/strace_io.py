"""Record the exact byte stream a process hands to the kernel for one file (strace), and rebuild crash images from it.

crash model: the process dies; the file holds a byte-prefix of the write stream, applied at the offsets the process used,
in program order (no power-loss reordering)."""
import os, re, subprocess

_LINE = re.compile(r'^(\d+)\s+(\w+)\((.*)\)\s+=\s+(-?\d+|\?)(.*)$')


def unhex(s):
    return bytes(int(s[i + 2:i + 4], 16) for i in range(0, len(s), 4))


def run_traced(argv, path, env=None, cwd=None, timeout=300, inject=None):
    """Run argv under strace, tracing I/O on `path`. Returns (returncode, logfile text lines)."""
    log = path + '.strace'
    cmd = ['strace', '-f', '-y', '-xx', '-s', '100000000', '-e', 'trace=openat,read,write,lseek,close,pwrite64,pread64,ftruncate', '-P', path, '-o', log]
    if inject:
        cmd += ['-e', inject]
    p = subprocess.run(cmd + argv, env=env, cwd=cwd, capture_output=True, text=True, timeout=timeout)
    with open(log) as f:
        lines = f.read().split('\n')
    os.unlink(log)
    return p.returncode, lines, p.stderr[-2000:]


def parse(lines):
    """-> list of events: ('open', trunc) ('write', offset, bytes) ('close',)  for the traced file, in order."""
    ev = []
    off = {}
    for ln in lines:
        m = _LINE.match(ln)
        if not m:
            continue
        pid, sc, args, ret = m.group(1), m.group(2), m.group(3), m.group(4)
        if ret == '?':
            continue
        ret = int(ret)
        if sc == 'openat':
            if ret < 0:
                continue
            trunc = 'O_TRUNC' in args
            writable = ('O_WRONLY' in args) or ('O_RDWR' in args)
            off[ret] = 0
            ev.append(('open', trunc, writable, ret))
            continue
        fdm = re.match(r'^(\d+)<', args)
        if not fdm:
            continue
        fd = int(fdm.group(1))
        if fd not in off:
            off[fd] = 0
        if sc == 'read':
            if ret > 0:
                off[fd] += ret
        elif sc == 'lseek':
            if ret >= 0:
                off[fd] = ret
        elif sc == 'write':
            q1 = args.index('"')
            q2 = args.rindex('"')
            data = unhex(args[q1 + 1:q2])
            if ret >= 0:
                data = data[:ret]
                ev.append(('write', off[fd], data, fd))
                off[fd] += ret
        elif sc == 'pwrite64':
            q1 = args.index('"')
            q2 = args.rindex('"')
            data = unhex(args[q1 + 1:q2])
            o = int(args[q2 + 1:].split(',')[2])
            ev.append(('write', o, data[:ret], fd))
        elif sc == 'ftruncate':
            ev.append(('truncate', int(args.split(',')[1]), fd))
        elif sc == 'close':
            ev.append(('close', fd))
            off.pop(fd, None)
    return ev


class Stream:
    """Linearised write stream. positions k = number of payload bytes handed to the kernel so far (0..total)."""

    def __init__(self, events, base=b''):
        self.events = events
        self.base = base
        self.total = sum(len(e[2]) for e in events if e[0] == 'write')
        # positions (in stream coordinates) at which a writable open was closed = a save call completed
        self.close_pos = []
        pos = 0
        wfds = set()
        for e in events:
            if e[0] == 'open' and e[2]:
                wfds.add(e[3])
            elif e[0] == 'write':
                pos += len(e[2])
            elif e[0] == 'close' and e[1] in wfds:
                wfds.discard(e[1])
                self.close_pos.append(pos)

    def image(self, k):
        """file content after the first k payload bytes (truncating opens before that point applied)."""
        buf = bytearray(self.base)
        pos = 0
        for e in self.events:
            if e[0] == 'open':
                if e[1] and pos <= k:
                    # the truncating open happens before the first byte of its stream segment: it has happened iff
                    # the process got this far, i.e. all previous bytes were written. A crash exactly at pos==k may or may not
                    # have executed the open; we model "not yet" for k==pos only when nothing precedes (k==0).
                    if pos < k or pos == 0:
                        buf = bytearray()
            elif e[0] == 'truncate':
                if pos <= k:
                    del buf[e[1]:]
            elif e[0] == 'write':
                data = e[2]
                take = min(len(data), k - pos)
                if take <= 0:
                    break
                o = e[1]
                if o > len(buf):
                    buf.extend(b'\0' * (o - len(buf)))
                buf[o:o + take] = data[:take]
                pos += take
                if take < len(data):
                    break
        return bytes(buf)

    def file_offset_of(self, k):
        """file offset at which stream byte k-1 (the last byte present) landed; -1 if k==0"""
        pos = 0
        for e in self.events:
            if e[0] == 'write':
                if pos + len(e[2]) >= k:
                    return e[1] + (k - pos) - 1
                pos += len(e[2])
        return -1
