"""Shared harness: sharded worker subprocesses, three-valued verdicts, evidence files, known findings.

A check module (checks/cXX_*.py) defines

    PROPERTY = "C14"
    def plan(tier, seed) -> list of (variant, [case, ...])     # cases are JSON-able dicts
    def run_case(case) -> dict                                  # executed inside a worker subprocess
        {"violations": [{"mech": <mechanism key>, "msg": ..., ...}], "cell": <hashable-as-json or None>,
         "counters": {name: int}, "sample": optional}
    def summarize(results, tier, seed) -> dict with keys rule, floor(optional) ...

The parent never imports rebound; workers do, with PYTHONPATH pointing at the freshly built variant.
A worker that dies (signal / sanitizer abort) is an *observation* attached to the case it was running.
"""
import json, os, sys, subprocess, time, random, tempfile, shutil, signal, hashlib, traceback, importlib

from . import build as B

VERIF = B.VERIF
NPROC = int(os.environ.get("VERIF_JOBS", "16"))


def rng(prop, seed, *extra):
    return random.Random("%s:%s:%s" % (prop, seed, ":".join(str(e) for e in extra)))


# ------------------------------------------------------------------ worker side
def worker_main(argv):
    modname, casefile, outfile = argv[:3]
    sys.path.insert(0, VERIF)
    # no single file written by a worker (or a child of it) may exceed 1 GiB - a runaway history once filled the disk with one archive:
    # the writer dies with SIGXFSZ, which the parent records for the case in flight.  (No address-space limit: workers start
    # sanitizer-built drivers, which reserve terabytes of shadow memory.)
    import resource
    try:
        resource.setrlimit(resource.RLIMIT_FSIZE, (1 << 30, 1 << 30))
    except (ValueError, OSError):
        pass
    if os.environ.get('VERIF_PYREACH'):
        _pyreach_start(os.environ['VERIF_PYREACH'])
    mod = importlib.import_module(modname)
    out = open(outfile, 'a')
    with open(casefile) as f:
        cases = [json.loads(l) for l in f]
    for idx, case in cases:
        out.write(json.dumps({"start": idx}) + "\n")
        out.flush()
        t0 = time.time()
        try:
            res = mod.run_case(case)
        except BaseException as e:  # harness-level exception: reported as an error of the harness, not a pass
            res = {"harness_error": "%s: %s" % (type(e).__name__, e), "trace": traceback.format_exc()[-3000:]}
        res["wall"] = time.time() - t0
        out.write(json.dumps({"idx": idx, "res": res}, default=_jd) + "\n")
        out.flush()
    out.close()


def _pyreach_start(outdir):
    """Reach evidence for the Python layer (tools/pyreach.py; never part of a verdict): record which functions of the working tree's
    rebound/*.py a check's workers enter.  sys.monitoring PY_START with DISABLE per code object: one callback per function per worker."""
    import atexit
    seen = set()
    mon = sys.monitoring
    tid = mon.PROFILER_ID
    try:
        mon.use_tool_id(tid, 'verif-pyreach')
    except ValueError:
        return

    def on_start(code, off):
        fn = code.co_filename
        if os.sep + 'rebound' + os.sep in fn and os.sep + 'tests' + os.sep not in fn:
            seen.add((os.path.basename(os.path.dirname(fn)) + '/' + os.path.basename(fn), code.co_qualname, code.co_firstlineno))
        return mon.DISABLE
    mon.register_callback(tid, mon.events.PY_START, on_start)
    mon.set_events(tid, mon.events.PY_START)

    def dump():
        os.makedirs(outdir, exist_ok=True)
        with open(os.path.join(outdir, 'w%d.json' % os.getpid()), 'w') as f:
            json.dump(sorted(seen), f)
    atexit.register(dump)


def _jd(o):
    try:
        import numpy as np
        if isinstance(o, (np.integer,)):
            return int(o)
        if isinstance(o, (np.floating,)):
            return float(o)
        if isinstance(o, np.ndarray):
            return o.tolist()
    except Exception:
        pass
    if isinstance(o, bytes):
        return o.hex()
    return repr(o)


# ------------------------------------------------------------------ parent side
def run_cases(modname, variant, cases, timeout_case=120, nproc=None, extra_env=None, chunk=None):
    """Run cases (list of dicts) in worker subprocesses against `variant`. Returns list of result dicts
    aligned with cases. A worker death yields {"crash": {...}} for the case in flight."""
    nproc = nproc or NPROC
    bdir = B.build(variant)
    env = B.env_for(variant, bdir, extra_env)
    scratch = tempfile.mkdtemp(prefix="vf-%s-" % modname.split('.')[-1])
    results = [None] * len(cases)
    pending = list(range(len(cases)))
    if chunk is None:
        chunk = max(1, min(64, (len(cases) + nproc * 4 - 1) // (nproc * 4)))
    chunks = [pending[i:i + chunk] for i in range(0, len(pending), chunk)]
    running = {}
    serial = [0]

    def launch(idxs):
        serial[0] += 1
        cf = os.path.join(scratch, "c%d.jsonl" % serial[0])
        of = os.path.join(scratch, "o%d.jsonl" % serial[0])
        with open(cf, 'w') as f:
            for i in idxs:
                f.write(json.dumps([i, cases[i]]) + "\n")
        wd = os.path.join(scratch, "w%d" % serial[0])
        os.makedirs(wd)
        shutil.copy(os.path.join(bdir, 'rebound.html'), wd)
        errf = open(os.path.join(scratch, "e%d.txt" % serial[0]), 'w')
        p = subprocess.Popen([B.PY, '-c', 'import sys; sys.path.insert(0, %r); from vf.core import worker_main; worker_main(sys.argv[1:])' % VERIF,
                              modname, cf, of], env=env, cwd=wd, stdout=errf, stderr=subprocess.STDOUT,
                             start_new_session=True)
        running[p] = dict(idxs=idxs, of=of, err=errf.name, t0=time.time(), last=time.time(), seen=0, wd=wd)

    def harvest(p, info, final):
        """read output file; returns (done_idxs, inflight_idx)"""
        done = []
        inflight = None
        if os.path.exists(info['of']):
            with open(info['of']) as f:
                for line in f:
                    try:
                        d = json.loads(line)
                    except Exception:
                        continue
                    if 'start' in d:
                        inflight = d['start']
                    else:
                        results[d['idx']] = d['res']
                        done.append(d['idx'])
                        if inflight == d['idx']:
                            inflight = None
        return done, inflight

    queue = list(chunks)
    while queue or running:
        while queue and len(running) < nproc:
            launch(queue.pop(0))
        time.sleep(0.02)
        for p in list(running):
            info = running[p]
            rc = p.poll()
            if rc is None:
                # watchdog: per-case timeout measured from last progress
                sz = os.path.getsize(info['of']) if os.path.exists(info['of']) else 0
                if sz != info['seen']:
                    info['seen'] = sz
                    info['last'] = time.time()
                elif time.time() - info['last'] > timeout_case:
                    try:
                        os.killpg(p.pid, signal.SIGKILL)
                    except Exception:
                        p.kill()
                    p.wait()
                    done, inflight = harvest(p, info, True)
                    if inflight is not None:
                        note = None
                        try:
                            with open(os.path.join(info['wd'], 'inflight.txt')) as f:
                                note = f.read(4000)
                        except Exception:
                            pass
                        results[inflight] = {"timeout": timeout_case, "inflight": note}
                    rest = [i for i in info['idxs'] if results[i] is None]
                    del running[p]
                    if rest:
                        queue.insert(0, rest)
                continue
            # the worker was started as a session leader: whatever it left behind in its process group dies with it.  (A sanitizer report
            # starts one llvm-symbolizer child per reporting process, and that child outlives the aborted process; a thousand of them
            # once exhausted the machine's memory during a long series of runs against deliberately broken trees.)
            try:
                os.killpg(p.pid, signal.SIGKILL)
            except Exception:
                pass
            done, inflight = harvest(p, info, True)
            del running[p]
            if rc != 0 or inflight is not None:
                tail = ""
                try:
                    with open(info['err']) as f:
                        tail = f.read()[-6000:]
                except Exception:
                    pass
                if inflight is not None and results[inflight] is None:
                    note = None
                    try:
                        with open(os.path.join(info['wd'], 'inflight.txt')) as f:
                            note = f.read(4000)
                    except Exception:
                        pass
                    results[inflight] = {"crash": {"returncode": rc, "signal": -rc if rc < 0 else None, "stderr": tail, "inflight": note}}
                elif inflight is None and rc != 0:
                    # died outside any case (import failure etc.)
                    for i in info['idxs']:
                        if results[i] is None:
                            results[i] = {"harness_error": "worker exited rc=%s outside a case" % rc, "trace": tail}
                rest = [i for i in info['idxs'] if results[i] is None]
                if rest:
                    queue.insert(0, rest)
            shutil.rmtree(info['wd'], ignore_errors=True)
    shutil.rmtree(scratch, ignore_errors=True)
    return results


# ------------------------------------------------------------------ verdicts
def load_known():
    p = os.path.join(VERIF, 'known_findings.json')
    if not os.path.exists(p):
        return {}
    with open(p) as f:
        d = json.load(f)
    out = {}
    for e in d.get('findings', []):
        if e.get('status') == 'known':
            out[(e['property'], e['mechanism'])] = e
    return out


class Verdict:
    def __init__(self, prop, tier, seed, level='exploration'):
        self.prop, self.tier, self.seed, self.level = prop, tier, seed, level
        self.t0 = time.time()
        self.violations = []       # unlisted
        self.known_seen = {}       # mech -> first witness
        self.inconclusive = []     # reasons
        self.harness_errors = []
        self.known = load_known()
        self.counters = {}
        self.cells = set()
        self.samples = []
        self.evaluations = 0

    def count(self, k, n=1):
        self.counters[k] = self.counters.get(k, 0) + n

    def violation(self, mech, witness):
        key = (self.prop, mech)
        if key in self.known:
            if mech not in self.known_seen:
                self.known_seen[mech] = witness
            self.count('known_finding_hits:' + mech)
        else:
            self.violations.append(dict(mech=mech, witness=witness))

    def absorb(self, case, res, crash_mech=None):
        """Fold one worker result into the verdict. crash_mech(case,res)->mech names a worker death."""
        self.evaluations += 1
        if res is None:
            self.harness_errors.append("no result for case %r" % (case,))
            return
        if 'harness_error' in res:
            self.harness_errors.append(res['harness_error'] + "\n" + res.get('trace', ''))
            return
        if 'timeout' in res:
            self.inconclusive.append("watchdog fired (%ss) on case %s" % (res['timeout'], json.dumps(case, default=_jd)[:300]))
            return
        if 'crash' in res:
            if res['crash'].get('signal') == 9 and not (res['crash'].get('stderr') or '').strip():
                # SIGKILL with nothing on stderr cannot come from the program under test (no sanitizer report, no abort message): the
                # kernel's out-of-memory killer or an operator ended the worker.  Inconclusive for this case, like a watchdog expiry.
                self.inconclusive.append("watchdog: worker killed by SIGKILL from outside (memory pressure?) on case %s" % json.dumps(case, default=_jd)[:300])
                return
            mech = crash_mech(case, res) if crash_mech else 'process-death'
            self.violation(mech, dict(case=case, crash=res['crash']))
            return
        if res.get('wall', 0) > getattr(self, 'slowest', (0, None))[0]:
            self.slowest = (res['wall'], case)
        for v in res.get('violations', []):
            self.violation(v['mech'], dict(case=case, detail=v))
        for k, n in res.get('counters', {}).items():
            self.count(k, n)
        for c in res.get('cells', []) or ([res['cell']] if res.get('cell') is not None else []):
            self.cells.add(json.dumps(c, sort_keys=True, default=_jd))
        if res.get('sample') is not None and len(self.samples) < 6:
            self.samples.append(res['sample'])

    def finish(self, rule, extra_cov=None, assumptions=None, floor=2, exhaustive=None, inconclusive_if=None):
        wall = time.time() - self.t0
        cov = dict(evaluations=int(self.evaluations), distinct_nontrivial=len(self.cells), rule=rule,
                   samples=self.samples[:6] or [], counters=self.counters)
        if exhaustive is not None:
            cov['exhaustive'] = bool(exhaustive)
        if extra_cov:
            cov.update(extra_cov)
        for mech in self.known_seen:
            print("KNOWN-FINDING: property=%s %s -- %s" % (self.prop, mech, self.known[(self.prop, mech)].get('what', '')))
        cov['known_findings_observed'] = sorted(self.known_seen)
        status = 0
        replay = None
        if self.violations:
            rdir = os.environ.get('VERIF_REPLAY_DIR') or os.path.join(VERIF, 'replay')
            os.makedirs(rdir, exist_ok=True)
            replay = os.path.join(rdir, '%s-%s-seed%s.json' % (self.prop, self.tier, self.seed))
            with open(replay, 'w') as f:
                keep, per = [], {}
                for v in self.violations:
                    per[v['mech']] = per.get(v['mech'], 0) + 1
                    if per[v['mech']] <= 4:
                        keep.append(v)
                json.dump(dict(property=self.prop, tier=self.tier, seed=self.seed, violations=keep[:200]), f, indent=1, default=_jd)
            mechs = {}
            for v in self.violations:
                mechs[v['mech']] = mechs.get(v['mech'], 0) + 1
            for m, n in sorted(mechs.items()):
                print("  violation mechanism %s x%d" % (m, n))
                w = next(v for v in self.violations if v['mech'] == m)
                print("    first witness: %s" % json.dumps(w['witness'], default=_jd)[:1500])
            print("VIOLATION property=%s replay=%s" % (self.prop, replay))
            status = 1
        if self.harness_errors:
            print("HARNESS-ERROR property=%s count=%d first=%s" % (self.prop, len(self.harness_errors), self.harness_errors[0][-2500:]))
            if status == 0:
                status = 3
        if len(self.cells) < floor:
            self.inconclusive.append("only %d distinct non-trivial cells (floor %d)" % (len(self.cells), floor))
        if inconclusive_if:
            self.inconclusive.extend(inconclusive_if)
        hard_inconclusive = [r for r in self.inconclusive if not r.startswith("watchdog")]
        nwd = len(self.inconclusive) - len(hard_inconclusive)
        if nwd > max(2, self.evaluations // 50):
            hard_inconclusive.append("%d cases hit the wall-clock watchdog" % nwd)
        cov['inconclusive_reasons'] = self.inconclusive[:20]
        if hard_inconclusive and status == 0:
            print("INCONCLUSIVE property=%s reason=%s" % (self.prop, "; ".join(hard_inconclusive)[:1500]))
            status = 2
        ev = dict(property_id=self.prop, tier=self.tier, seed=int(self.seed), level=self.level, coverage=cov,
                  assumptions=assumptions or [], wall_s=round(wall, 2), violations=len(self.violations))
        if not cov['samples']:
            cov['samples'] = ["(no sample recorded)"]
        evdir = os.environ.get('VERIF_EVIDENCE_DIR') or os.path.join(VERIF, 'evidence')
        os.makedirs(evdir, exist_ok=True)
        evp = os.path.join(evdir, self.prop + '.json')
        with open(evp, 'w') as f:
            json.dump(ev, f, indent=1, default=_jd, sort_keys=True)
        _validate_evidence(evp)
        verdict_word = {0: 'HELD', 1: 'VIOLATED', 2: 'INCONCLUSIVE', 3: 'HARNESS-ERROR'}[status]
        print("%s property=%s tier=%s seed=%s evaluations=%d distinct_nontrivial=%d wall=%.1fs" % (
            verdict_word, self.prop, self.tier, self.seed, self.evaluations, len(self.cells), wall))
        for k in sorted(self.counters):
            print("  %-60s %d" % (k, self.counters[k]))
        if getattr(self, 'slowest', None):
            print("  slowest case %.1fs: %s" % (self.slowest[0], json.dumps(self.slowest[1], default=_jd)[:300]))
        return status


def _validate_evidence(path):
    try:
        sys.path.insert(0, os.path.join(VERIF, '.deps'))
        import jsonschema
        with open('/root/.vp/EVIDENCE.schema.json') as f:
            schema = json.load(f)
        with open(path) as f:
            jsonschema.validate(json.load(f), schema)
    except ImportError:
        pass
    except FileNotFoundError:
        pass
