"""Independent reference integrator for the gravitational N-body problem (+ optional extra ODE variables).

Gragg-Bulirsch-Stoer extrapolation (modified midpoint, step sequence 2,4,...,16, Aitken-Neville in h^2) in numpy long double
(64-bit mantissa), fixed macro step.  Nothing is shared with REBOUND.  The result comes with its own error estimate (difference of
the last two extrapolation columns, accumulated), and callers additionally compare two macro step sizes.

Force model (matches the documented semantics of N_active / testparticle_type):
  active bodies (index < n_active) attract everybody;  test particles (index >= n_active) do not attract each other;
  testparticle_type 1: test particles attract the active bodies (with their mass);  type 0: they do not.
"""
import numpy as np

LD = np.longdouble
SEQ = [2, 4, 6, 8, 10, 12, 14, 16]


def make_rhs(m, G, n_active=None, tp_type=0, extra=None, softening=0.0):
    m = np.asarray(m, dtype=LD)
    N = len(m)
    na = N if n_active is None or n_active < 0 else n_active
    act = np.zeros((N, N), dtype=bool)          # act[i, j]: j attracts i
    for i in range(N):
        for j in range(N):
            if i == j:
                continue
            if j < na:
                act[i, j] = True
            elif i < na and tp_type == 1:
                act[i, j] = True
    W = act * m[None, :] * LD(G)
    eye = np.eye(N, dtype=LD)
    s2 = LD(softening) ** 2

    def rhs(t, Y):
        pos = Y[:3 * N].reshape(N, 3)
        vel = Y[3 * N:6 * N]
        d = pos[None, :, :] - pos[:, None, :]          # d[i, j] = x_j - x_i
        r2 = (d * d).sum(-1) + eye + s2
        inv3 = W / (r2 * np.sqrt(r2))
        acc = (inv3[:, :, None] * d).sum(1)
        out = np.empty_like(Y)
        out[:3 * N] = vel
        out[3 * N:6 * N] = acc.reshape(-1)
        if extra is not None:
            out[6 * N:] = extra(t, Y[6 * N:], pos, vel.reshape(N, 3))
        return out
    return rhs


def gbs_step(rhs, t, y, H):
    T = []
    f0 = rhs(t, y)
    for k, n in enumerate(SEQ):
        h = H / n
        z0 = y
        z1 = y + h * f0
        for j in range(1, n):
            z2 = z0 + 2 * h * rhs(t + j * h, z1)
            z0, z1 = z1, z2
        yk = 0.5 * (z1 + z0 + h * rhs(t + H, z1))
        row = [yk]
        for j in range(1, k + 1):
            fac = (LD(SEQ[k]) / LD(SEQ[k - j])) ** 2 - 1
            row.append(row[j - 1] + (row[j - 1] - T[k - 1][j - 1]) / fac)
        T.append(row)
    err = np.max(np.abs(T[-1][-1] - T[-1][-2]))
    return T[-1][-1], err


def integrate_segments(m, y0, G, Tend, H, nseg, **kw):
    """States at Tend*k/nseg, k=1..nseg (each segment continues from the previous one)."""
    out = []
    y = y0
    z = kw.pop('z0', None)
    for k in range(nseg):
        st, z, e = integrate(m, y, G, LD(Tend) / nseg, H, z0=z, **kw)
        out.append(st)
        y = st
    return out


def integrate(m, y0, G, Tend, H, n_active=None, tp_type=0, extra=None, z0=None, softening=0.0):
    """y0: (N,6) array of x,y,z,vx,vy,vz.  Returns (state (N,6) float64-able long double, z, accumulated error estimate)."""
    N = len(m)
    y0 = np.asarray(y0, dtype=LD)
    Y = np.concatenate([y0[:, :3].reshape(-1), y0[:, 3:].reshape(-1)] + ([np.asarray(z0, dtype=LD)] if z0 is not None else []))
    rhs = make_rhs(m, G, n_active, tp_type, extra, softening)
    nst = max(1, int(np.ceil(abs(Tend) / abs(H))))
    h = LD(Tend) / nst
    t = LD(0)
    errsum = LD(0)
    for i in range(nst):
        Y, e = gbs_step(rhs, t, Y, h)
        errsum += e
        t += h
    out = np.concatenate([Y[:3 * N].reshape(N, 3), Y[3 * N:6 * N].reshape(N, 3)], axis=1)
    return out, (Y[6 * N:] if z0 is not None else None), errsum
