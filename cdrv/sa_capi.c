// C07: open an archive (possibly a crash image) through the C-only entry points, the way a C user would:
//   reb_simulationarchive_create_from_file / reb_simulation_create_from_simulationarchive / reb_simulationarchive_free
//   reb_simulation_create_from_file(path, -1)
// Prints one line per observation; the harness judges them. A crash or a sanitizer report is an observation too (exit status).
#include <stdio.h>
#include <stdlib.h>
#include <string.h>
#include <stdint.h>
#include "rebound.h"
int main(int argc, char** argv){
    if (argc<2) return 2;
    struct reb_simulationarchive* sa = reb_simulationarchive_create_from_file(argv[1]);
    if (!sa){
        printf("SA NULL\n");
    }else{
        printf("SA nblobs=%ld\n", (long)sa->nblobs);
        for (int64_t i=0;i<sa->nblobs;i++){
            uint64_t bits; memcpy(&bits, &(sa->t[i]), 8);
            struct reb_simulation* r = reb_simulation_create_from_simulationarchive(sa, i);
            if (r){
                uint64_t b2; memcpy(&b2, &(r->t), 8);
                printf("SNAP %ld index_t=%llu loaded_t=%llu N=%u\n", (long)i, (unsigned long long)bits, (unsigned long long)b2, r->N);
                reb_simulation_free(r);
            }else{
                printf("SNAP %ld index_t=%llu NULL\n", (long)i, (unsigned long long)bits);
            }
        }
        reb_simulationarchive_free(sa);
    }
    struct reb_simulation* r = reb_simulation_create_from_file(argv[1], -1);
    if (r){
        uint64_t b2; memcpy(&b2, &(r->t), 8);
        printf("FILE last loaded_t=%llu N=%u\n", (unsigned long long)b2, r->N);
        reb_simulation_free(r);
    }else{
        printf("FILE NULL\n");
    }
    printf("DONE\n");
    return 0;
}
