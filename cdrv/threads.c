// C19 driver: runs the same set of simulation jobs either one after another or concurrently in pthreads and prints one
// hash per job.  Jobs create / integrate / copy / serialise / restore / free simulations of all integrator types.
// usage: threads <seq|par> <nthreads> <njobs> <seed> <nsteps> [modules]
#include <stdio.h>
#include <stdlib.h>
#include <string.h>
#include <stdint.h>
#include <pthread.h>
#include <math.h>
#include "rebound.h"

static int njobs, nsteps;
static uint64_t seed;
static uint64_t* results;
static int next_job = 0;
static pthread_mutex_t jm = PTHREAD_MUTEX_INITIALIZER;

static uint64_t lcg(uint64_t* s){ *s = *s * 6364136223846793005ULL + 1442695040888963407ULL; return *s >> 11; }
static double urand(uint64_t* s){ return (double)(lcg(s) & 0xFFFFFFFFFFFFFULL) / (double)0x10000000000000ULL; }

static uint64_t fnv(uint64_t h, const void* p, size_t n){
    const unsigned char* c = p;
    for (size_t i=0;i<n;i++){ h ^= c[i]; h *= 1099511628211ULL; }
    return h;
}

static uint64_t hash_sim(struct reb_simulation* r){
    uint64_t h = 1469598103934665603ULL;
    for (unsigned int i=0;i<r->N;i++){
        h = fnv(h, &r->particles[i].x, 6*sizeof(double));
        h = fnv(h, &r->particles[i].m, sizeof(double));
    }
    h = fnv(h, &r->t, sizeof(double));
    return h;
}

static struct reb_simulation* make(int k){
    uint64_t s = seed * 1000003ULL + (uint64_t)k * 7919ULL + 17ULL;
    for (int i=0;i<5;i++) lcg(&s);
    struct reb_simulation* r = reb_simulation_create();
    int np = 2 + (int)(lcg(&s) % 3);
    reb_simulation_add_fmt(r, "m", 1.0 + 0.5*(k%3));
    double a = 1.0;
    for (int i=0;i<np;i++){
        double m = pow(10., -6. + 3.*urand(&s));
        reb_simulation_add_fmt(r, "m a e inc f", m, a, 0.15*urand(&s), 0.1*urand(&s), 6.28*urand(&s));
        a *= 1.7 + 0.4*urand(&s);
    }
    reb_simulation_move_to_com(r);
    r->dt = 6.283185307/ (17.3 + 10.*urand(&s));
    switch (k % 10){
        case 0: r->integrator = REB_INTEGRATOR_IAS15; break;
        case 1: r->integrator = REB_INTEGRATOR_WHFAST; r->ri_whfast.coordinates = (k/10)%4; break;
        case 2: r->integrator = REB_INTEGRATOR_SABA; r->ri_saba.type = (k/10)%2 ? REB_SABA_CL_4 : REB_SABA_10_6_4; break;
        case 3: r->integrator = REB_INTEGRATOR_EOS; r->ri_eos.phi0 = REB_EOS_PMLF4; r->ri_eos.phi1 = REB_EOS_LF4; r->ri_eos.n = 1 + (k/10)%3; break;
        case 4: r->integrator = REB_INTEGRATOR_LEAPFROG; break;
        case 5: r->integrator = REB_INTEGRATOR_MERCURIUS; break;
        case 6: r->integrator = REB_INTEGRATOR_TRACE; break;
        case 7: r->integrator = REB_INTEGRATOR_BS; break;
        case 8: r->integrator = REB_INTEGRATOR_JANUS; { int o[5] = {2,4,6,8,10}; r->ri_janus.order = o[(k/10)%5]; } break;
        case 9: r->integrator = REB_INTEGRATOR_WHFAST; r->ri_whfast.safe_mode = 0; r->ri_whfast.corrector = 11; break;
    }
    // deferred synchronisation variants: unsafe mode, with and without keep_unsynchronized (synchronise-for-output paths use scratch buffers)
    int v = (k/10)%6;
    if (k%10==1 && v>=3){ r->ri_whfast.safe_mode = 0; r->ri_whfast.keep_unsynchronized = (v==4); r->ri_whfast.kernel = (v==5)?REB_WHFAST_KERNEL_LAZY:REB_WHFAST_KERNEL_DEFAULT; if (v==5){ r->ri_whfast.coordinates = REB_WHFAST_COORDINATES_JACOBI; r->ri_whfast.corrector = 17; } }
    if (k%10==9){ r->ri_whfast.keep_unsynchronized = v%2; }
    if (k%10==2 && v>=2){ r->ri_saba.safe_mode = 0; r->ri_saba.keep_unsynchronized = (v>=4); r->ri_whfast.safe_mode = 0; r->ri_whfast.keep_unsynchronized = (v>=4); }
    if (k%10==5 && v>=3){ r->ri_mercurius.safe_mode = 0; }
    if (k%10==3 && v>=3){ r->ri_eos.safe_mode = 0; }
    if (k%10==4 && v==2){ r->gravity = REB_GRAVITY_COMPENSATED; }
    if ((k/10)%4 == 3 && (k%10==0 || k%10==1 || k%10==4)){
        if (r->integrator == REB_INTEGRATOR_WHFAST) r->ri_whfast.coordinates = REB_WHFAST_COORDINATES_JACOBI;
        reb_simulation_init_megno_seed(r, 1000 + k);   // variational particles; the default seed is taken from the clock
    }
    return r;
}

// Second job class ("modules"): clusters in a box with the gravity / collision / boundary modules, every job with its own G, softening,
// opening angle, box size and collision settings - constants that a force or search routine might be tempted to keep in file-scope variables.
static struct reb_simulation* make_module(int k){
    uint64_t s = seed * 1000003ULL + (uint64_t)k * 104729ULL + 29ULL;
    for (int i=0;i<5;i++) lcg(&s);
    struct reb_simulation* r = reb_simulation_create();
    r->rand_seed = 1000 + k;                 // the default seed is taken from the clock
    r->integrator = REB_INTEGRATOR_LEAPFROG;
    r->G = 0.5 + 0.25*(k%7);
    r->softening = 0.01*(1 + k%5);
    r->opening_angle2 = 0.1 + 0.3*(k%6);
    const double L = 16. + 4.*(k%3);
    const int grav = k%4;                     // 0,1: tree  2: basic  3: compensated
    const int col = (k/4)%4;                  // 0: none  1: direct  2: tree  3: line
    const int per = (k/2)%2;                  // periodic box with one ring of ghost boxes
    const int tree = (grav<2) || col==2;
    if (tree || per){
        reb_simulation_configure_box(r, L, 1 + (k%2), 1, 1 + (k/8)%2);
    }
    if (per){
        r->boundary = REB_BOUNDARY_PERIODIC;
        r->N_ghost_x = 1; r->N_ghost_y = 1; r->N_ghost_z = 0;
    }
    r->gravity = grav<2 ? REB_GRAVITY_TREE : (grav==2 ? REB_GRAVITY_BASIC : REB_GRAVITY_COMPENSATED);
    if (col==1) r->collision = REB_COLLISION_DIRECT;
    if (col==2) r->collision = REB_COLLISION_TREE;
    if (col==3) r->collision = REB_COLLISION_LINE;
    if (col) r->collision_resolve = (k/16)%2 ? reb_collision_resolve_merge : reb_collision_resolve_hardsphere;
    const int np = 40 + (int)(lcg(&s) % 40);
    for (int i=0;i<np;i++){
        struct reb_particle p = {0};
        p.m = 1e-3*(0.2 + urand(&s));
        p.r = col ? 0.08 + 0.2*urand(&s) : 0.;
        p.x = (urand(&s)-0.5)*L*0.9; p.y = (urand(&s)-0.5)*L*0.9; p.z = (urand(&s)-0.5)*L*0.45;
        p.vx = 0.3*(urand(&s)-0.5); p.vy = 0.3*(urand(&s)-0.5); p.vz = 0.1*(urand(&s)-0.5);
        reb_simulation_add(r, p);
    }
    r->dt = 0.02 + 0.01*(k%3);
    return r;
}

static int jobclass = 0;

static uint64_t job(int k){
    struct reb_simulation* r = jobclass ? make_module(k) : make(k);
    if ((k/10)%2){
        // observers between steps: synchronise-for-output and diagnostics must neither disturb this run nor any other thread's
        int done = 0;
        double acc = 0;
        while (done < nsteps/2){
            int n = 1 + (k+done)%7;
            if (done+n > nsteps/2) n = nsteps/2-done;
            reb_simulation_steps(r, n);
            done += n;
            reb_simulation_synchronize(r);
            acc += reb_simulation_energy(r);
        }
        if (acc != acc) printf("# nan energy in job %d\n", k);
    }else{
        reb_simulation_steps(r, nsteps/2);
    }
    // churn: copy, serialise, restore, advance the copies a little, free
    struct reb_simulation* c = reb_simulation_copy(r);
    char* buf = NULL; size_t size = 0;
    reb_simulation_save_to_stream(c, &buf, &size);
    uint64_t h = fnv(1469598103934665603ULL, &size, sizeof(size));
    reb_simulation_steps(c, 3);
    reb_simulation_synchronize(c);
    h = fnv(h, &c->particles[c->N>1?1:0].x, sizeof(double));
    reb_simulation_free(c);
    free(buf);
    reb_simulation_steps(r, nsteps - nsteps/2);
    reb_simulation_synchronize(r);
    uint64_t hh = hash_sim(r);
    h = fnv(h, &hh, sizeof(hh));
    reb_simulation_free(r);
    return h;
}

static void* worker(void* arg){
    (void)arg;
    while (1){
        pthread_mutex_lock(&jm);
        int k = next_job++;
        pthread_mutex_unlock(&jm);
        if (k >= njobs) break;
        results[k] = job(k);
    }
    return NULL;
}

int main(int argc, char** argv){
    if (argc < 6) return 2;
    int par = !strcmp(argv[1], "par");
    int nthreads = atoi(argv[2]);
    njobs = atoi(argv[3]);
    seed = strtoull(argv[4], NULL, 10);
    nsteps = atoi(argv[5]);
    jobclass = (argc > 6 && !strcmp(argv[6], "modules"));
    results = calloc(njobs, sizeof(uint64_t));
    if (!par){
        for (int k=0;k<njobs;k++) results[k] = job(k);
    }else{
        pthread_t* th = malloc(sizeof(pthread_t)*nthreads);
        for (int i=0;i<nthreads;i++) pthread_create(&th[i], NULL, worker, NULL);
        for (int i=0;i<nthreads;i++) pthread_join(th[i], NULL);
        free(th);
    }
    for (int k=0;k<njobs;k++) printf("%d %016llx\n", k, (unsigned long long)results[k]);
    free(results);
    return 0;
}
