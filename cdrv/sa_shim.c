// LD_PRELOAD shim: observes every archive snapshot taken through reb_simulation_save_to_file (manual calls made from C and the
// automatic ones made from the integration loop go through the PLT and land here). It records the live state at that moment
// (the bytes of reb_simulation_save_to_stream) to the log named by $VERIF_SA_LOG, then forwards to the real function.
// Nothing in the repository is changed; the observation point is the function boundary.
#define _GNU_SOURCE
#include <dlfcn.h>
#include <stdio.h>
#include <stdlib.h>
#include <stdint.h>
#include <string.h>
struct reb_simulation;
typedef void (*save_fn)(struct reb_simulation*, const char*);
typedef void (*stream_fn)(struct reb_simulation*, char**, size_t*);
void reb_simulation_save_to_file(struct reb_simulation* r, const char* filename){
    static save_fn real = NULL;
    static stream_fn tostream = NULL;
    if (!real){
        // librebound is dlopen()ed by ctypes (RTLD_LOCAL), so RTLD_NEXT does not see it: look it up by path.
        const char* lib = getenv("VERIF_LIBREBOUND");
        void* h = lib ? dlopen(lib, RTLD_NOW | RTLD_NOLOAD) : NULL;
        if (!h){ fprintf(stderr, "sa_shim: cannot find loaded librebound (%s)\n", lib ? lib : "VERIF_LIBREBOUND unset"); abort(); }
        real = (save_fn)dlsym(h, "reb_simulation_save_to_file");
        tostream = (stream_fn)dlsym(h, "reb_simulation_save_to_stream");
        if (!real || !tostream){ fprintf(stderr, "sa_shim: symbols not found\n"); abort(); }
    }
    const char* log = getenv("VERIF_SA_LOG");
    if (log && tostream){
        char* buf = NULL; size_t size = 0;
        tostream(r, &buf, &size);
        FILE* f = fopen(log, "ab");
        if (f){
            uint64_t s = size;
            fwrite(&s, sizeof(s), 1, f);
            fwrite(buf, size, 1, f);
            fclose(f);
        }
        free(buf);
    }
    real(r, filename);
}
