// C05 driver for valgrind memcheck: clusters around a central body with finite radii, advanced with the integrators that keep
// per-pair / per-particle scratch arrays (TRACE, MERCURIUS, IAS15, WHFast, BS, LEAPFROG+tree), with mergers and hard-sphere
// bounces mid-step, a pair that merges at the END of the particle array, and the run moving onto a fresh copy of itself every
// few dozen steps.  Memcheck reports every use of a value that was never written; the parent counts reports whose stack is
// inside the library.   usage: memchk <seed> <first_job> <njobs> <nsteps>
#include <stdio.h>
#include <stdlib.h>
#include <string.h>
#include <stdint.h>
#include <math.h>
#include "rebound.h"

static uint64_t lcg(uint64_t* s){ *s = *s * 6364136223846793005ULL + 1442695040888963407ULL; return *s >> 11; }
static double urand(uint64_t* s){ return (double)(lcg(s) & 0xFFFFFFFFFFFFFULL) / (double)0x10000000000000ULL; }

static uint64_t fnv(uint64_t h, const void* p, size_t n){
    const unsigned char* c = p;
    for (size_t i=0;i<n;i++){ h ^= c[i]; h *= 1099511628211ULL; }
    return h;
}

static struct reb_simulation* make(uint64_t seed, int k){
    uint64_t s = seed * 1000003ULL + (uint64_t)k * 7919ULL + 17ULL;
    for (int i=0;i<5;i++) lcg(&s);
    struct reb_simulation* r = reb_simulation_create();
    r->rand_seed = 1 + (unsigned int)(lcg(&s) & 0xffffff);
    int kind = k % 7;
    int n = 6 + (int)(lcg(&s) % 22);
    reb_simulation_add_fmt(r, "m r", 1.0, 0.1);
    for (int i=0;i<n;i++){
        double d = 2.0 + 7.0*urand(&s), ang = 6.283185307*urand(&s), z = 0.6*(urand(&s)-0.5);
        double v = sqrt(1.0/d);
        double m = pow(10., -5. + 3.*urand(&s));
        struct reb_particle p = {0};
        p.m = (i%5==4) ? 0.0 : m;
        p.r = 0.15 + 1.0*urand(&s);
        p.x = d*cos(ang); p.y = d*sin(ang); p.z = z;
        p.vx = -sin(ang)*v; p.vy = cos(ang)*v; p.vz = 0.02*(urand(&s)-0.5);
        reb_simulation_add(r, p);
    }
    if (k % 2){
        // a pair at the end of the array that meets within the first hundred steps
        double d = 6.0 + 3.0*urand(&s), ang = 6.283185307*urand(&s), v = sqrt(1.0/d);
        double sep = 0.6 + 0.9*urand(&s), vr = 0.2 + 0.4*urand(&s);
        for (int sg=-1; sg<=1; sg+=2){
            struct reb_particle p = {0};
            p.m = 1e-5; p.r = 0.15;
            p.x = (d+sg*sep/2.)*cos(ang); p.y = (d+sg*sep/2.)*sin(ang); p.z = 0.01*sg;
            p.vx = -sin(ang)*v - sg*vr/2.*cos(ang); p.vy = cos(ang)*v - sg*vr/2.*sin(ang);
            reb_simulation_add(r, p);
        }
    }
    r->dt = 0.02;
    r->softening = 0.05;
    r->collision = REB_COLLISION_DIRECT;
    r->collision_resolve = ((k/7)%3==2) ? reb_collision_resolve_hardsphere : reb_collision_resolve_merge;
    r->collision_resolve_keep_sorted = 1;
    switch (kind){
        case 0: r->integrator = REB_INTEGRATOR_TRACE; break;
        case 1: r->integrator = REB_INTEGRATOR_TRACE; r->collision = REB_COLLISION_LINE; r->ri_trace.peri_mode = (k/7)%2 ? REB_TRACE_PERI_PARTIAL_BS : REB_TRACE_PERI_FULL_IAS15; break;
        case 2: r->integrator = REB_INTEGRATOR_MERCURIUS; r->ri_mercurius.safe_mode = (k/7)%2; break;
        case 3: r->integrator = REB_INTEGRATOR_IAS15; r->dt = 0.05; break;
        case 4: r->integrator = REB_INTEGRATOR_WHFAST; r->ri_whfast.coordinates = (k/7)%4; r->ri_whfast.safe_mode = 1 /* unsafe mode leaves re-deriving the Jacobi coordinates after a merger to the user */; r->N_active = 1 + n/2; r->testparticle_type = (k/28)%2; break;
        case 5: r->integrator = REB_INTEGRATOR_BS; r->dt = 0.05; break;
        case 6: r->integrator = REB_INTEGRATOR_LEAPFROG; r->dt = 0.05;
                reb_simulation_configure_box(r, 24., 1+(k/7)%2, 1, 1);
                r->boundary = REB_BOUNDARY_OPEN; r->gravity = REB_GRAVITY_TREE; r->opening_angle2 = 0.25;
                r->collision = (k/14)%2 ? REB_COLLISION_LINETREE : REB_COLLISION_TREE; r->collision_resolve_keep_sorted = 0; break;
    }
    if (kind==3 && (k/7)%2){
        reb_simulation_init_megno_seed(r, 1000+k);
    }
    return r;
}

int main(int argc, char** argv){
    if (argc < 5) return 2;
    uint64_t seed = strtoull(argv[1], NULL, 10);
    int first = atoi(argv[2]), njobs = atoi(argv[3]), nsteps = atoi(argv[4]);
    for (int k=first; k<first+njobs; k++){
        struct reb_simulation* r = make(seed, k);
        int N0 = r->N;
        int done = 0, hops = 0;
        uint64_t s = seed + 31ULL*k;
        while (done < nsteps && r->N > 1){
            int n = 1 + (int)(lcg(&s) % 40);
            if (done + n > nsteps) n = nsteps - done;
            reb_simulation_steps(r, n);
            done += n;
            if (r->status > 0 && r->status != REB_STATUS_PAUSED) break;
            reb_simulation_synchronize(r);
            double e = reb_simulation_energy(r);
            if (e != e) { printf("# job %d: non-finite energy after %d steps\n", k, done); break; }
            // move house: continue on a copy (fresh scratch arrays); function pointers are not part of a copy
            struct reb_simulation* c = reb_simulation_copy(r);
            c->collision_resolve = r->collision_resolve;
            reb_simulation_free(r);
            r = c;
            hops++;
        }
        uint64_t h = 1469598103934665603ULL;
        for (unsigned int i=0;i<r->N;i++){ h = fnv(h, &r->particles[i].x, 6*sizeof(double)); h = fnv(h, &r->particles[i].m, sizeof(double)); }
        printf("JOB %d kind %d N %d -> %d steps %d hops %d hash %016llx\n", k, k%7, N0, r->N, done, hops, (unsigned long long)h);
        reb_simulation_free(r);
    }
    printf("DONE\n");
    return 0;
}
